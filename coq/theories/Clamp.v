(* Clamp.v — clamp_table_small_numbers (elementtables.py): entries of an element table that are
   numpy-close to -1, 0 or 1 are replaced by that number.  For all entries and all tolerances
   (small enough that the three targets stay apart) an entry moves by at most atol + rtol. *)
From Coq Require Import QArith Qabs Lqa List Bool.
Import ListNotations.
Open Scope Q_scope.

(* numpy.isclose(x, n, rtol, atol) for finite values: |x - n| <= atol + rtol * |n| *)
Definition isclose (rtol atol x n : Q) : bool := Qle_bool (Qabs (x - n)) (atol + rtol * Qabs n).

Definition clamp1 (rtol atol : Q) (x n : Q) : Q := if isclose rtol atol x n then n else x.

(* for n in numbers: table[isclose(table, n)] = n   — applied in sequence to each entry *)
Definition clamp (rtol atol : Q) (numbers : list Q) (x : Q) : Q := fold_left (clamp1 rtol atol) numbers x.

Lemma isclose_spec rtol atol x n :
  isclose rtol atol x n = true <-> - (atol + rtol * Qabs n) <= x - n <= atol + rtol * Qabs n.
Proof. unfold isclose. rewrite Qle_bool_iff. apply Qabs_Qle_condition. Qed.

Lemma isclose_false rtol atol x n :
  isclose rtol atol x n = false -> ~ (- (atol + rtol * Qabs n) <= x - n <= atol + rtol * Qabs n).
Proof. intros H C. apply isclose_spec in C. congruence. Qed.

Lemma Qabs_m1 : Qabs (-1) == 1. Proof. reflexivity. Qed.
Lemma Qabs_0 : Qabs 0 == 0. Proof. reflexivity. Qed.
Lemma Qabs_1 : Qabs 1 == 1. Proof. reflexivity. Qed.

Theorem clamp_moves_at_most_tolerance rtol atol x :
  0 <= rtol -> 0 <= atol -> atol + rtol < 1 # 2 ->
  Qabs (clamp rtol atol [-1; 0; 1] x - x) <= atol + rtol.
Proof.
  intros Hr Ha Hs. unfold clamp, fold_left, clamp1.
  apply Qabs_Qle_condition.
  destruct (isclose rtol atol x (-1)) eqn:E1.
  - apply isclose_spec in E1. rewrite Qabs_m1 in E1.
    destruct (isclose rtol atol (-1) 0) eqn:E2.
    { apply isclose_spec in E2. rewrite Qabs_0 in E2. lra. }
    destruct (isclose rtol atol (-1) 1) eqn:E3.
    { apply isclose_spec in E3. rewrite Qabs_1 in E3. lra. }
    lra.
  - destruct (isclose rtol atol x 0) eqn:E2.
    + apply isclose_spec in E2. rewrite Qabs_0 in E2.
      destruct (isclose rtol atol 0 1) eqn:E3.
      { apply isclose_spec in E3. rewrite Qabs_1 in E3. lra. }
      lra.
    + destruct (isclose rtol atol x 1) eqn:E3.
      * apply isclose_spec in E3. rewrite Qabs_1 in E3. lra.
      * lra.
Qed.

(* the result is the entry itself or one of the three targets *)
Theorem clamp_range rtol atol x :
  let y := clamp rtol atol [-1; 0; 1] x in y = x \/ y = -1 \/ y = 0 \/ y = 1.
Proof.
  unfold clamp, fold_left, clamp1.
  destruct (isclose rtol atol x (-1)); [destruct (isclose rtol atol (-1) 0); [destruct (isclose rtol atol 0 1)|destruct (isclose rtol atol (-1) 1)]|
    destruct (isclose rtol atol x 0); [destruct (isclose rtol atol 0 1)|destruct (isclose rtol atol x 1)]]; auto.
Qed.

(* zero tolerances change nothing (up to the value) *)
Theorem clamp_zero_tolerance x : clamp 0 0 [-1; 0; 1] x == x.
Proof.
  unfold clamp, fold_left, clamp1.
  assert (Z : forall a n, isclose 0 0 a n = true -> a == n).
  { intros a n H. apply isclose_spec in H. lra. }
  destruct (isclose 0 0 x (-1)) eqn:E1.
  - pose proof (Z _ _ E1) as H1.
    destruct (isclose 0 0 (-1) 0) eqn:E2; [apply Z in E2; lra|].
    destruct (isclose 0 0 (-1) 1) eqn:E3; [apply Z in E3; lra|]. lra.
  - destruct (isclose 0 0 x 0) eqn:E2.
    + pose proof (Z _ _ E2) as H2. destruct (isclose 0 0 0 1) eqn:E3; [apply Z in E3; lra|]. lra.
    + destruct (isclose 0 0 x 1) eqn:E3; [apply Z in E3; lra|]. lra.
Qed.

(* not vacuous: with the default tolerances 1e-6 / 1e-9 an entry 1e-10 off is clamped *)
Example clamp_default_example :
  clamp (1 # 1000000) (1 # 1000000000) [-1; 0; 1] (9999999999 # 10000000000) = 1.
Proof. vm_compute. reflexivity. Qed.

(* without the separation hypothesis the bound fails: huge atol sends -1 on to 0 and then 1 *)
Example clamp_large_tolerance_refuted :
  ~ Qabs (clamp 0 1 [-1; 0; 1] (-1) - (-1)) <= 1 + 0.
Proof. vm_compute. intros H. apply H. reflexivity. Qed.
