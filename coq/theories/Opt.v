(* Opt.v — model of ffcx/codegeneration/optimizer.py as functions on the code list that
   IntegralGenerator hands to optimize(): plain statements and Sections (name, statements,
   declarations, annotations).  Model only (no proofs here); the correspondence check
   (harness/optcorr.py) runs [optimize] and the real optimizer on the same captured calls and
   compares the resulting trees node by node.

   Faithful to the source, including what looks accidental:
     - fuse_sections keeps the annotations of the LAST section of the name, puts the fused
       section where the FIRST one stood, and leaves the list alone when no section matches;
     - fuse_loops moves every non-loop statement in front of the loops, groups loops by
       (index, begin, end) in order of first occurrence, keeps each collected body as a
       statement list (a single statement stays bare: as_statement), and returns a section WITHOUT annotations (so licm never follows fuse);
     - licm only acts when the first statement has loop depth 2, numbers the temporaries in
       the order of the dictionary keyed by the assignment target, hoists a product's factors
       that do not mention the inner index when there are at least two of them, and appends
       temp[outer index] at the END of the remaining factors.
   [None] stands for a Python exception (assert / NotImplementedError / IndexError). *)

From Coq Require Import ZArith List Bool String.
Require Import FFCX.LN.
Import ListNotations.
Open Scope Z_scope.

Inductive annot := AFuse | AUnroll | ALicm | AFactorize.

Definition annot_eqb (a b : annot) : bool :=
  match a, b with
  | AFuse, AFuse | AUnroll, AUnroll | ALicm, ALicm | AFactorize, AFactorize => true
  | _, _ => false
  end.

Record section := mkSec {
  sname : string;
  sstmts : list stmt;
  sdecls : list stmt;
  sannots : list annot }.

Inductive item := IStmt (s : stmt) | ISec (s : section).

Definition has_annot (a : annot) (l : list annot) : bool := existsb (annot_eqb a) l.

(* ------------------------------------------------------------------ *)
(* structural equality of trees (Python's == on LNodes is structural for the nodes that matter) *)

Definition binop_eqb (a b : binop) : bool :=
  match a, b with
  | OAdd, OAdd | OSub, OSub | OMul, OMul | ODiv, ODiv | OEQ, OEQ | ONE, ONE | OLT, OLT
  | OGT, OGT | OLE, OLE | OGE, OGE | OAnd, OAnd | OOr, OOr => true
  | _, _ => false
  end.

Definition dtype_eqb (a b : dtype) : bool :=
  match a, b with
  | DReal, DReal | DScalar, DScalar | DInt, DInt | DBool, DBool => true
  | _, _ => false
  end.

Section ListEqb.
Context {A : Type} (eqb : A -> A -> bool).
Fixpoint list_eqb (l1 l2 : list A) : bool :=
  match l1, l2 with
  | [], [] => true
  | a :: l1', b :: l2' => eqb a b && list_eqb l1' l2'
  | _, _ => false
  end.
End ListEqb.

Fixpoint expr_eqb (a b : expr) {struct a} : bool :=
  match a, b with
  | ELitI x, ELitI y => Z.eqb x y
  | ELitF m e, ELitF m' e' => Z.eqb m m' && Z.eqb e e'
  | ELitC a1 a2 a3 a4, ELitC b1 b2 b3 b4 => Z.eqb a1 b1 && Z.eqb a2 b2 && Z.eqb a3 b3 && Z.eqb a4 b4
  | ESym x, ESym y => Pos.eqb x y
  | EAcc x i, EAcc y j =>
      Pos.eqb x y &&
      (fix go (l1 l2 : list expr) : bool :=
         match l1, l2 with
         | [], [] => true
         | p :: l1', q :: l2' => expr_eqb p q && go l1' l2'
         | _, _ => false
         end) i j
  | ENeg x, ENeg y => expr_eqb x y
  | ENot x, ENot y => expr_eqb x y
  | EBin o l r, EBin o' l' r' => binop_eqb o o' && expr_eqb l l' && expr_eqb r r'
  | ESum i, ESum j | EProd i, EProd j =>
      (fix go (l1 l2 : list expr) : bool :=
         match l1, l2 with
         | [], [] => true
         | p :: l1', q :: l2' => expr_eqb p q && go l1' l2'
         | _, _ => false
         end) i j
  | ECall f i, ECall g j =>
      String.eqb f g &&
      (fix go (l1 l2 : list expr) : bool :=
         match l1, l2 with
         | [], [] => true
         | p :: l1', q :: l2' => expr_eqb p q && go l1' l2'
         | _, _ => false
         end) i j
  | ECond c t f, ECond c' t' f' => expr_eqb c c' && expr_eqb t t' && expr_eqb f f'
  | _, _ => false
  end.

Definition lval_eqb (a b : lval) : bool :=
  match a, b with
  | LVar x, LVar y => Pos.eqb x y
  | LArr x i, LArr y j => Pos.eqb x y && list_eqb expr_eqb i j
  | _, _ => false
  end.

Fixpoint stmt_eqb (a b : stmt) {struct a} : bool :=
  match a, b with
  | SSkip, SSkip => true
  | SVarDecl x t e, SVarDecl y t' e' => Pos.eqb x y && dtype_eqb t t' && expr_eqb e e'
  | SArrDecl x t sh vs ro, SArrDecl y t' sh' vs' ro' =>
      Pos.eqb x y && dtype_eqb t t' && list_eqb Z.eqb sh sh' && list_eqb expr_eqb vs vs' && Bool.eqb ro ro'
  | SAssign l e, SAssign l' e' | SAssignAdd l e, SAssignAdd l' e' => lval_eqb l l' && expr_eqb e e'
  | SFor i b e body, SFor i' b' e' body' =>
      Pos.eqb i i' && Z.eqb b b' && Z.eqb e e' &&
      (fix go (l1 l2 : list stmt) : bool :=
         match l1, l2 with
         | [], [] => true
         | p :: l1', q :: l2' => stmt_eqb p q && go l1' l2'
         | _, _ => false
         end) body body'
  | SBlock body, SBlock body' | SList body, SList body' =>
      (fix go (l1 l2 : list stmt) : bool :=
         match l1, l2 with
         | [], [] => true
         | p :: l1', q :: l2' => stmt_eqb p q && go l1' l2'
         | _, _ => false
         end) body body'
  | _, _ => false
  end.

Definition section_eqb (a b : section) : bool :=
  String.eqb (sname a) (sname b) && list_eqb stmt_eqb (sstmts a) (sstmts b)
  && list_eqb stmt_eqb (sdecls a) (sdecls b) && list_eqb annot_eqb (sannots a) (sannots b).

Definition item_eqb (a b : item) : bool :=
  match a, b with
  | IStmt s, IStmt t => stmt_eqb s t
  | ISec s, ISec t => section_eqb s t
  | _, _ => false
  end.

(* ------------------------------------------------------------------ *)
(* lnodes.as_statement, applied by the constructors of Section and StatementList to every statement
   they are given: a statement list with exactly one statement is replaced by that statement *)

Definition norm1 (s : stmt) : stmt := match s with SList [x] => x | _ => s end.
Definition wrap_body (body : list stmt) : stmt := match body with [x] => x | _ => SList body end.

(* ------------------------------------------------------------------ *)
(* fuse_sections(code, name) *)

Definition named (n : string) (it : item) : option section :=
  match it with
  | ISec s => if String.eqb (sname s) n then Some s else None
  | IStmt _ => None
  end.

Definition named_sections (n : string) (code : list item) : list section :=
  flat_map (fun it => match named n it with Some s => [s] | None => [] end) code.

Definition fused_section (n : string) (code : list item) : section :=
  let secs := named_sections n code in
  mkSec n (map norm1 (flat_map sstmts secs)) (flat_map sdecls secs) (last (map sannots secs) []).

Fixpoint replace_first (n : string) (f : section) (seen : bool) (code : list item) : list item :=
  match code with
  | [] => []
  | it :: r =>
      match named n it with
      | Some _ => if seen then replace_first n f true r else ISec f :: replace_first n f true r
      | None => it :: replace_first n f seen r
      end
  end.

Definition fuse_sections (code : list item) (n : string) : list item :=
  replace_first n (fused_section n code) false code.

(* ------------------------------------------------------------------ *)
(* fuse_loops(section) *)

Definition lkey := (ident * Z * Z)%type.

Definition lkey_eqb (a b : lkey) : bool :=
  match a, b with (i, b1, e1), (j, b2, e2) => Pos.eqb i j && Z.eqb b1 b2 && Z.eqb e1 e2 end.

Fixpoint add_loop (k : lkey) (body : list stmt) (acc : list (lkey * list (list stmt)))
  : list (lkey * list (list stmt)) :=
  match acc with
  | [] => [(k, [body])]
  | (k', bs) :: r => if lkey_eqb k k' then (k', bs ++ [body]) :: r else (k', bs) :: add_loop k body r
  end.

Definition is_for (s : stmt) : bool := match s with SFor _ _ _ _ => true | _ => false end.

Definition loop_buckets (l : list stmt) : list (lkey * list (list stmt)) :=
  fold_left (fun acc st => match st with SFor i b e body => add_loop (i, b, e) body acc | _ => acc end) l [].

Definition mk_loop (kb : lkey * list (list stmt)) : stmt :=
  match kb with ((i, b, e), bodies) => SFor i b e (map wrap_body bodies) end.

Definition fuse_loops (s : section) : section :=
  mkSec (sname s)
        (map norm1 (filter (fun st => negb (is_for st)) (sstmts s)) ++ map mk_loop (loop_buckets (sstmts s)))
        (sdecls s) [].

(* ------------------------------------------------------------------ *)
(* licm(section) *)

Fixpoint depth (s : stmt) : nat :=
  match s with
  | SFor _ _ _ body => S (fold_right (fun x m => Nat.max (depth x) m) O body)
  | SList l => fold_right (fun x m => Nat.max (depth x) m) O l
  | _ => O
  end.

(* check_dependency(arg, index): Some true / Some false, None = NotImplementedError *)
Definition mentions (i : ident) (e : expr) : bool :=
  match e with ESym x => Pos.eqb x i | _ => false end.

Definition check_dependency (i : ident) (arg : expr) : option bool :=
  match arg with
  | EAcc _ idx =>
      Some (existsb (fun e => mentions i e
                              || match e with
                                 | ESum args | EProd args => existsb (mentions i) args
                                 | _ => false
                                 end) idx)
  | ESym _ => Some false
  | ELitF _ _ | ELitI _ | ELitC _ _ _ _ => Some false
  | _ => None
  end.

(* the assignments of the inner loop body, in order: get_statements of every body statement *)
Definition assign_of (s : stmt) : option (lval * list expr) :=
  match s with
  | SAssignAdd (LArr a idx) (EProd args) => Some (LArr a idx, args)
  | _ => None
  end.

Definition assigns_of (s : stmt) : option (list (lval * list expr)) :=
  match s with
  | SList l => opt_map assign_of l
  | _ => match assign_of s with Some a => Some [a] | None => None end
  end.

Fixpoint dedup_lvals (l : list lval) (seen : list lval) : list lval :=
  match l with
  | [] => []
  | x :: r => if existsb (lval_eqb x) seen then dedup_lvals r seen else x :: dedup_lvals r (x :: seen)
  end.

(* split the factors: (dependent on the inner index, hoistable) *)
Fixpoint split_args (i : ident) (args : list expr) : option (list expr * list expr) :=
  match args with
  | [] => Some ([], [])
  | a :: r =>
      match check_dependency i a, split_args i r with
      | Some d, Some (keep, hoist) => Some (if d then (a :: keep, hoist) else (keep, a :: hoist))
      | _, _ => None
      end
  end.

Definition hoists (hoist : list expr) : bool := Nat.ltb 1 (List.length hoist).

(* temporaries in dictionary order: for each distinct target (first occurrence order), each of its products *)
Definition dict_order (asg : list (lval * list expr)) : list (lval * list expr) :=
  flat_map (fun k => filter (fun a => lval_eqb (fst a) k) asg) (dedup_lvals (map fst asg) []).

(* rank of the n-th assignment (position in body order) among the hoisting ones in dictionary order.
   Assignments are identified by (target, occurrence number among equal targets). *)
Fixpoint occurrence (l : lval) (before : list (lval * list expr)) : nat :=
  match before with
  | [] => O
  | a :: r => (if lval_eqb (fst a) l then 1 else 0)%nat + occurrence l r
  end.

Section Licm.
Variable temps : list ident.      (* identifiers of temp_0, temp_1, ... *)
Variable inner : ident.
Variable outer : ident.
Variables (ob oe : Z).

Definition temp_id (k : nat) : option ident := nth_error temps k.

(* walk the dictionary order, numbering the hoisting products: result = for every (target, occurrence)
   the temp number, plus the pre-loop code *)
Fixpoint number (l : list (lval * list expr)) (seen : list (lval * list expr)) (counter : nat)
  : option (list (lval * nat * nat) * list stmt) :=
  match l with
  | [] => Some ([], [])
  | (lv, args) :: r =>
      match split_args inner args with
      | None => None
      | Some (keep, hoist) =>
          if hoists hoist then
            match temp_id counter, number r (seen ++ [(lv, args)]) (S counter) with
            | Some t, Some (tab, pre) =>
                Some ((lv, occurrence lv seen, counter) :: tab,
                      SArrDecl t DScalar [oe - ob] [ELitI 0] false
                      :: SFor outer ob oe [SAssign (LArr t [ESym outer]) (EProd hoist)] :: pre)
            | _, _ => None
            end
          else number r (seen ++ [(lv, args)]) counter
      end
  end.

Fixpoint lookup (lv : lval) (occ : nat) (tab : list (lval * nat * nat)) : option nat :=
  match tab with
  | [] => None
  | (l, o, c) :: r => if lval_eqb l lv && Nat.eqb o occ then Some c else lookup lv occ r
  end.

Definition rewrite_assign (tab : list (lval * nat * nat)) (seen : list (lval * list expr))
           (a : lval * list expr) : option stmt :=
  let (lv, args) := a in
  match lookup lv (occurrence lv seen) tab with
  | None => Some (SAssignAdd lv (EProd args))
  | Some c =>
      match split_args inner args, temp_id c with
      | Some (keep, _), Some t => Some (SAssignAdd lv (EProd (keep ++ [EAcc t [ESym outer]])))
      | _, _ => None
      end
  end.

(* rewrite the inner loop body, statement by statement, threading the assignments already seen *)
Fixpoint rewrite_list (tab : list (lval * nat * nat)) (seen : list (lval * list expr))
         (l : list (lval * list expr)) : option (list stmt) :=
  match l with
  | [] => Some []
  | a :: r =>
      match rewrite_assign tab seen a, rewrite_list tab (seen ++ [a]) r with
      | Some s, Some rs => Some (s :: rs)
      | _, _ => None
      end
  end.

Fixpoint rewrite_body (tab : list (lval * nat * nat)) (seen : list (lval * list expr))
         (body : list stmt) : option (list stmt) :=
  match body with
  | [] => Some []
  | s :: r =>
      match assigns_of s with
      | None => None
      | Some asg =>
          match rewrite_list tab seen asg, rewrite_body tab (seen ++ asg) r with
          | Some ss, Some rs =>
              Some ((match s with SList _ => SList ss | _ => hd SSkip ss end) :: rs)
          | _, _ => None
          end
      end
  end.

End Licm.

Definition licm (temps : list ident) (s : section) : option section :=
  match sstmts s with
  | [] => None
  | first :: rest =>
      if negb (Nat.eqb (depth first) 2) then Some s
      else
        match first with
        | SFor oi ob oe (SFor ii ib ie ibody :: orest) =>
            match opt_map assigns_of ibody with
            | None => None
            | Some asgs =>
                let asg := List.concat asgs in
                match number temps ii oi ob oe (dict_order asg) [] O with
                | None => None
                | Some (tab, pre) =>
                    match rewrite_body temps ii oi tab [] ibody with
                    | None => None
                    | Some ibody' =>
                        Some (mkSec (sname s)
                                    (pre ++ SFor oi ob oe (SFor ii ib ie ibody' :: orest) :: rest)
                                    (sdecls s) (sannots s))
                    end
                end
            end
        | _ => None
        end
  end.

(* ------------------------------------------------------------------ *)
(* optimize(code, rule) *)

Definition opt_item (temps : list ident) (it : item) : option item :=
  match it with
  | IStmt _ => Some it
  | ISec s =>
      let s1 := if has_annot AFuse (sannots s) then fuse_loops s else s in
      if has_annot ALicm (sannots s1) then
        match licm temps s1 with Some s2 => Some (ISec s2) | None => None end
      else Some (ISec s1)
  end.

Definition optimize (temps : list ident) (code : list item) : option (list item) :=
  opt_map (opt_item temps) (fuse_sections (fuse_sections code "Coefficient") "Jacobian").

(* ------------------------------------------------------------------ *)
(* what the C formatter prints for the list: Section = declarations ; { statements } *)

Definition desugar_section (s : section) : list stmt :=
  sdecls s ++ (match sstmts s with [] => [] | l => [SBlock l] end).

Definition desugar_item (it : item) : list stmt :=
  match it with IStmt s => [s] | ISec s => desugar_section s end.

Definition desugar (code : list item) : list stmt := flat_map desugar_item code.

Definition items_eqb (a b : list item) : bool := list_eqb item_eqb a b.

Definition opt_matches (temps : list ident) (before after : list item) : bool :=
  match optimize temps before with Some r => items_eqb r after | None => false end.
