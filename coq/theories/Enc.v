(* Enc.v — compact, fast-to-parse spelling of float literals in generated files.
   Z numerals with 16 digits are parsed by a Gallina function (0.6 ms each);
   primitive 63-bit integers are parsed natively.  [Lxy m e] denotes the
   literal (+/-)m * 2^(+/-)e. *)
From Coq Require Import ZArith Uint63.
From FFCX Require Import LN.

Definition Lpp (m e : int) : expr := ELitF (Uint63.to_Z m) (Uint63.to_Z e).
Definition Lpn (m e : int) : expr := ELitF (Uint63.to_Z m) (- Uint63.to_Z e).
Definition Lnp (m e : int) : expr := ELitF (- Uint63.to_Z m) (Uint63.to_Z e).
Definition Lnn (m e : int) : expr := ELitF (- Uint63.to_Z m) (- Uint63.to_Z e).
