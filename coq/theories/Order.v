(* Order.v — why the regenerated site table (gen/SitesGen.v) makes code generation independent
   of hash order (C12).  A Python set hands its elements over in an order that depends on
   PYTHONHASHSEED and on the history of the process: an adversarial enumeration of the same
   elements.  A site that consumes a set is deterministic when it
     - sorts the enumeration under a key that separates the elements        (Sorted), or
     - uses it only through order-free observations (membership, size, equality) (OrderFree);
   a site that lets the enumeration order through (list(set(..)), for x in set) is not:
   two enumerations of one set give two different outputs (HashOrder, refuted below).
   GlobalState marks a module-level container that a function mutates: state that survives
   from one compilation into the next.
   Sites that dedupe a LIST with dict.fromkeys are functions of that list: nothing to prove. *)
From Coq Require Import List Arith Lia Permutation Sorted Bool PeanoNat.
Import ListNotations.

Section Sorting.
  Variable A : Type.
  Variable key : A -> nat.

  Fixpoint insert (x : A) (l : list A) : list A :=
    match l with
    | [] => [x]
    | y :: r => if key x <=? key y then x :: l else y :: insert x r
    end.

  Fixpoint isort (l : list A) : list A :=
    match l with [] => [] | x :: r => insert x (isort r) end.

  Definition keys_sorted (l : list A) : Prop := StronglySorted (fun a b => key a <= key b) l.

  Lemma insert_perm x l : Permutation (x :: l) (insert x l).
  Proof.
    induction l as [|y r IH]; simpl; [apply Permutation_refl|].
    destruct (key x <=? key y); [apply Permutation_refl|].
    eapply Permutation_trans; [apply perm_swap|]. apply perm_skip. exact IH.
  Qed.

  Lemma isort_perm l : Permutation l (isort l).
  Proof.
    induction l as [|x r IH]; simpl; [constructor|].
    eapply Permutation_trans; [apply perm_skip; exact IH|]. apply insert_perm.
  Qed.

  Lemma insert_sorted x l : keys_sorted l -> keys_sorted (insert x l).
  Proof.
    unfold keys_sorted. induction l as [|y r IH]; intros H; simpl.
    - constructor; [constructor|constructor].
    - destruct (key x <=? key y) eqn:E.
      + apply Nat.leb_le in E. constructor; [exact H|].
        inversion H as [|? ? Hr Hy]; subst. constructor; [exact E|].
        eapply Forall_impl; [|exact Hy]. intros a Ha. simpl in Ha. lia.
      + apply Nat.leb_gt in E. inversion H as [|? ? Hr Hy]; subst.
        constructor; [apply IH; exact Hr|].
        assert (P : Permutation (x :: r) (insert x r)) by apply insert_perm.
        eapply Permutation_Forall; [exact P|]. constructor; [lia|exact Hy].
  Qed.

  Lemma isort_sorted l : keys_sorted (isort l).
  Proof. induction l as [|x r IH]; simpl; [constructor|apply insert_sorted; exact IH]. Qed.

  (* a sorted list without repeated keys is determined by its elements *)
  Lemma sorted_unique l1 : forall l2,
    keys_sorted l1 -> keys_sorted l2 -> NoDup (map key l1) -> Permutation l1 l2 ->
    (forall a b, In a l1 -> In b l1 -> key a = key b -> a = b) -> l1 = l2.
  Proof.
    induction l1 as [|x r IH]; intros l2 S1 S2 ND P Inj.
    - apply Permutation_nil in P. subst. reflexivity.
    - destruct l2 as [|y s]; [apply Permutation_sym, Permutation_nil in P; discriminate|].
      inversion S1 as [|? ? Sr Hx]; subst. inversion S2 as [|? ? Ss Hy]; subst.
      assert (Iy : In y (x :: r)) by (eapply Permutation_in; [apply Permutation_sym; exact P|left; reflexivity]).
      assert (Ix : In x (y :: s)) by (eapply Permutation_in; [exact P|left; reflexivity]).
      assert (Kxy : key x = key y).
      { destruct Iy as [->|Iy]; [reflexivity|]. destruct Ix as [->|Ix]; [reflexivity|].
        rewrite Forall_forall in Hx, Hy. pose proof (Hx y Iy). pose proof (Hy x Ix). lia. }
      assert (x = y) by (apply Inj; [left; reflexivity|exact Iy|exact Kxy]). subst y.
      f_equal. apply IH; try assumption.
      + inversion ND; assumption.
      + eapply Permutation_cons_inv; exact P.
      + intros a b Ha Hb. apply Inj; right; assumption.
  Qed.

  (* Sorted site: any two enumerations of the same elements give the same list *)
  Theorem sorted_site_deterministic l1 l2 :
    Permutation l1 l2 -> NoDup (map key l1) ->
    (forall a b, In a l1 -> In b l1 -> key a = key b -> a = b) ->
    isort l1 = isort l2.
  Proof.
    intros P ND Inj.
    assert (P1 : Permutation l1 (isort l1)) by apply isort_perm.
    apply sorted_unique.
    - apply isort_sorted.
    - apply isort_sorted.
    - eapply Permutation_NoDup; [apply Permutation_map; exact P1|exact ND].
    - eapply Permutation_trans; [apply Permutation_sym; exact P1|].
      eapply Permutation_trans; [exact P|apply isort_perm].
    - intros a b Ha Hb. apply Inj; eapply Permutation_in; try (apply Permutation_sym; exact P1); assumption.
  Qed.
End Sorting.

(* order-free observations of an enumeration *)
Theorem size_is_order_free {A} (l1 l2 : list A) : Permutation l1 l2 -> length l1 = length l2.
Proof. apply Permutation_length. Qed.

Theorem membership_is_order_free {A} (l1 l2 : list A) x : Permutation l1 l2 -> (In x l1 <-> In x l2).
Proof. intros P; split; apply Permutation_in; [exact P|apply Permutation_sym; exact P]. Qed.

(* HashOrder site: the enumeration itself is the output *)
Example hash_order_site_refuted :
  exists l1 l2 : list nat, Permutation l1 l2 /\ l1 <> l2.
Proof. exists [1; 2], [2; 1]. split; [apply perm_swap|discriminate]. Qed.

Example sorted_example : isort nat (fun n => n) [3; 1; 2] = isort nat (fun n => n) [2; 3; 1].
Proof. reflexivity. Qed.

(* the site table *)
Inductive site_kind := Sorted | OrderFree | ListDedup | HashOrder | HistoryId | GlobalState.
Definition site_ok (k : site_kind) : bool :=
  match k with Sorted | OrderFree | ListDedup => true | HashOrder | HistoryId | GlobalState => false end.
