(* Naming.v — C13: the text that ffcx.naming.compute_signature hashes is an injective
   encoding of its components, so two requests share a module / object name only if all
   components agree (up to a SHA-1 collision, which is assumed away on the explored set).
   Strings are lists over an arbitrary alphabet with a distinguished separator. *)
From Coq Require Import List Arith Lia.
Import ListNotations.

Section Join.
Variable A : Type.
Variable sep : A.

Definition nosep (l : list A) : Prop := ~ In sep l.

Fixpoint join (fs : list (list A)) : list A :=
  match fs with
  | [] => []
  | [f] => f
  | f :: r => f ++ sep :: join r
  end.

Lemma split_first a b r s :
  nosep a -> nosep b -> a ++ sep :: r = b ++ sep :: s -> a = b /\ r = s.
Proof.
  revert b. induction a as [|x a IH]; intros b Ha Hb E.
  - destruct b as [|y b]; simpl in E.
    + inversion E. auto.
    + inversion E; subst. exfalso. apply Hb. left. reflexivity.
  - destruct b as [|y b]; simpl in E.
    + inversion E; subst. exfalso. apply Ha. left. reflexivity.
    + inversion E; subst. destruct (IH b) as [-> ->]; auto.
      * intro H. apply Ha. right. exact H.
      * intro H. apply Hb. right. exact H.
Qed.

(* all fields but the last are separator-free: the joined text determines every field *)
Theorem join_injective :
  forall fs gs,
    length fs = length gs ->
    Forall nosep (removelast fs) -> Forall nosep (removelast gs) ->
    join fs = join gs -> fs = gs.
Proof.
  induction fs as [|f fs IH]; intros gs Hl Hf Hg E.
  - destruct gs; [reflexivity | discriminate].
  - destruct gs as [|g gs]; [discriminate|].
    destruct fs as [|f2 fs]; destruct gs as [|g2 gs]; try discriminate.
    + simpl in E. subst. reflexivity.
    + simpl removelast in Hf, Hg. inversion Hf as [|? ? Hf1 Hf2]; inversion Hg as [|? ? Hg1 Hg2]; subst.
      change (f ++ sep :: join (f2 :: fs) = g ++ sep :: join (g2 :: gs)) in E.
      destruct (split_first _ _ _ _ Hf1 Hg1 E) as [-> E2].
      f_equal. apply IH; auto.
Qed.

(* concatenation of equal-length chunks (hex digests) determines the chunks *)
Lemma app_same_length (a b r s : list A) :
  length a = length b -> a ++ r = b ++ s -> a = b /\ r = s.
Proof.
  revert b. induction a as [|x a IH]; intros [|y b] Hl E; simpl in *; try discriminate; auto.
  inversion E; subst. destruct (IH b) as [-> ->]; auto.
Qed.

Theorem concat_fixed_injective n :
  forall xs ys : list (list A),
    0 < n -> Forall (fun s => length s = n) xs -> Forall (fun s => length s = n) ys ->
    concat xs = concat ys -> xs = ys.
Proof.
  intros xs. induction xs as [|x xs IH]; intros ys Hn Hx Hy E.
  - destruct ys as [|y ys]; [reflexivity|]. inversion Hy; subst. simpl in E.
    destruct y; [simpl in *; lia | discriminate].
  - inversion Hx; subst. destruct ys as [|y ys].
    + simpl in E. destruct x; [simpl in *; lia | discriminate].
    + inversion Hy; subst. simpl in E.
      destruct (app_same_length x y (concat xs) (concat ys)) as [-> E2]; [congruence | exact E|].
      f_equal. apply IH; auto.
Qed.

End Join.

(* names: a fixed prefix followed by the digest of the pre-image *)
Section Names.
Variable A D : Type.
Variable H : list A -> D.          (* SHA-1, abstract *)

Definition name (prefix : list A) (render : D -> list A) (pre : list A) : list A :=
  prefix ++ render (H pre).

(* if the digest and its rendering are injective on a set of pre-images, then so are names *)
Theorem names_distinct (P : list A -> Prop) prefix render :
  (forall x y, P x -> P y -> H x = H y -> x = y) ->
  (forall d e, render d = render e -> d = e) ->
  forall x y, P x -> P y -> name prefix render x = name prefix render y -> x = y.
Proof.
  intros Hinj Rinj x y Px Py E. unfold name in E.
  apply app_inv_head in E. apply Hinj; auto.
Qed.
End Names.
