(* StmtRender.v — executable helpers for the statement-level correspondence (stmtcorr.py): how the values of an array
   declaration are nested in the text (numpy shape), and equality of token streams up to what a lexer cannot tell apart
   (unary / binary minus, '<' of the loop header / of an expression, ',' of an initialiser / of an argument list,
   the spelling of a function name per scalar type).  Model only. *)
From Coq Require Import ZArith List Bool String.
From FFCX Require Import LN Tok Render Opt StmtFmt.
Import ListNotations.

Fixpoint take_n {A} (n : nat) (l : list A) : list A :=
  match n, l with S n', x :: r => x :: take_n n' r | _, _ => [] end.
Fixpoint drop_n {A} (n : nat) (l : list A) : list A :=
  match n, l with S n', _ :: r => drop_n n' r | _, _ => l end.

(* [count] consecutive chunks of [size] elements *)
Fixpoint chunks {A} (count size : nat) (l : list A) : list (list A) :=
  match count with
  | O => []
  | S c => take_n size l :: chunks c size (drop_n size l)
  end.

Definition prodn (shape : list Z) : nat := Z.to_nat (fold_right Z.mul 1%Z shape).

(* C/formatter._build_initializer_lists on an array of the declared shape; a one-dimensional value list (possibly
   shorter than the declared extent, e.g. {0}) is printed flat *)
Fixpoint nest_shape (shape : list Z) (vals : list expr) : ini :=
  match shape with
  | [] => IList (map IVal vals)
  | [_] => IList (map IVal vals)
  | n :: r => IList (map (nest_shape r) (chunks (Z.to_nat n) (prodn r) vals))
  end.

Definition nest_by_shape (shape : list Z) (vals : list expr) : ini :=
  if Nat.eqb (List.length vals) (prodn shape) then nest_shape shape vals else IList (map IVal vals).

Definition norm_tok (t : tok) : tok :=
  match t with
  | TMinus => TOp OSub
  | TFun _ => TFun ""
  | _ => t
  end.

Definition norm_stok (s : stok) : stok :=
  match s with
  | XE TComma => XComma
  | XLess => XE (TOp OLT)
  | XE t => XE (norm_tok t)
  | _ => s
  end.

Definition tok_eqb (a b : tok) : bool :=
  match a, b with
  | TId x, TId y => Pos.eqb x y
  | TFun f, TFun g => String.eqb f g
  | TInt x, TInt y => Z.eqb x y
  | TNum m e, TNum m' e' => Z.eqb m m' && Z.eqb e e'
  | TLP, TLP | TRP, TRP | TLB, TLB | TRB, TRB | TComma, TComma | TQ, TQ | TColon, TColon
  | TMinus, TMinus | TBang, TBang => true
  | TOp o, TOp o' => Opt.binop_eqb o o'
  | _, _ => false
  end.

Definition stok_eqb (a b : stok) : bool :=
  match a, b with
  | XE t, XE u => tok_eqb t u
  | XKw s, XKw s' => String.eqb s s'
  | XSemi, XSemi | XLBrace, XLBrace | XRBrace, XRBrace | XAssign, XAssign | XPlusAssign, XPlusAssign
  | XLess, XLess | XIncr, XIncr | XComma, XComma => true
  | _, _ => false
  end.

(* position of the first difference (None = equal) *)
Fixpoint first_diff (a b : list stok) (k : nat) : option nat :=
  match a, b with
  | [], [] => None
  | x :: a', y :: b' => if stok_eqb (norm_stok x) (norm_stok y) then first_diff a' b' (S k) else Some k
  | _, _ => Some k
  end.

Definition kernel_tokens (tyname : dtype -> string) (body : list stmt) : list stok :=
  flat_map (fmtS tyname nest_by_shape) body.
