(* SumFact.v — the algebra behind sum factorisation (C10): a tensor-product rule
   (points = list_prod of the 1D points, weights = products of the 1D weights, as built by
   create_quadrature_points_and_weights) applied to a product of per-direction factors equals
   the product of the per-direction sums; hence evaluating direction by direction computes
   the same number as the flat loop over all points. *)
From Coq Require Import ZArith List Lia.
Import ListNotations.
Open Scope Z_scope.

Definition sumZ (l : list Z) : Z := fold_right Z.add 0 l.

Lemma sumZ_app a b : sumZ (a ++ b) = sumZ a + sumZ b.
Proof. induction a as [|x a IH]; simpl; [reflexivity|]. rewrite IH. ring. Qed.

Lemma sumZ_map_scale {A} (c : Z) (h : A -> Z) l : sumZ (map (fun b => c * h b) l) = c * sumZ (map h l).
Proof. induction l as [|x l IH]; simpl; [ring|]. rewrite IH. ring. Qed.

Theorem tensor_rule_factorises {A B} (w1 f : A -> Z) (w2 g : B -> Z) (l1 : list A) (l2 : list B) :
  sumZ (map (fun p => (w1 (fst p) * w2 (snd p)) * (f (fst p) * g (snd p))) (list_prod l1 l2))
  = sumZ (map (fun a => w1 a * f a) l1) * sumZ (map (fun b => w2 b * g b) l2).
Proof.
  induction l1 as [|a l1 IH]; simpl; [reflexivity|].
  rewrite map_app, sumZ_app, IH, map_map. simpl.
  rewrite (map_ext _ (fun b => (w1 a * f a) * (w2 b * g b))) by (intros; ring).
  rewrite sumZ_map_scale. ring.
Qed.

(* three directions (hexahedra) *)
Theorem tensor_rule_factorises3 {A B C} (w1 f : A -> Z) (w2 g : B -> Z) (w3 h : C -> Z) l1 l2 l3 :
  sumZ (map (fun p => (w1 (fst p) * (w2 (fst (snd p)) * w3 (snd (snd p)))) * (f (fst p) * (g (fst (snd p)) * h (snd (snd p)))))
            (list_prod l1 (list_prod l2 l3)))
  = sumZ (map (fun a => w1 a * f a) l1) * (sumZ (map (fun b => w2 b * g b) l2) * sumZ (map (fun c => w3 c * h c) l3)).
Proof.
  rewrite <- (tensor_rule_factorises w2 g w3 h l2 l3).
  rewrite <- (tensor_rule_factorises w1 f (fun p => w2 (fst p) * w3 (snd p)) (fun p => g (fst p) * h (snd p)) l1 (list_prod l2 l3)).
  reflexivity.
Qed.
