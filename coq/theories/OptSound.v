(* OptSound.v — the optimiser model (Opt.v) preserves what a kernel body does.

   Section fusion and loop fusion, as functions on ALL code lists, are proved to refine the original:
   whenever the original code runs (LN.exec, any numeric domain, any store) the transformed code runs
   too and ends in an extensionally equal store — under a DECIDABLE side condition on the input
   ([fuse_loops_ok], [fuse_sections_ok], [opt_ok]) which says that the statements that get moved past one
   another do not interfere (Footprint.indep) and that the fused blocks / loop bodies declare nothing at
   their top level.  The side condition is evaluated by vm_compute on every captured optimize() call
   (harness/optcorr.py); the theorems turn `true` into the semantic statement for all inputs.

   optimize = (licm on the sections annotated for it) after (opt_nolicm)  [optimize_decomposes];
   licm itself is not proved here (it needs the algebra of products and the contents of the temporary
   array): OptProps.licm_product_value is its algebraic half, the per-kernel symbolic equivalence of C17
   the rest. *)

From Coq Require Import ZArith List Bool String FMapPositive Lia.
From FFCX Require Import LN Check SoundExpr SoundStmt Opt OptProps Footprint.
Import ListNotations.
Open Scope Z_scope.

(* ------------------------------------------------------------------ *)
(* the structural equality tests of Opt.v decide equality *)

Definition elist_eqb : list expr -> list expr -> bool :=
  fix go (l1 l2 : list expr) : bool :=
    match l1, l2 with
    | [], [] => true
    | p :: l1', q :: l2' => expr_eqb p q && go l1' l2'
    | _, _ => false
    end.

Lemma elist_eqb_eq l1 :
  Forall (fun p => forall q, expr_eqb p q = true -> p = q) l1 ->
  forall l2, elist_eqb l1 l2 = true -> l1 = l2.
Proof.
  induction 1 as [|p l1 Hp Hl IH]; intros l2 E; destruct l2 as [|q l2]; simpl in E; try discriminate.
  - reflexivity.
  - apply andb_true_iff in E. destruct E as [E1 E2]. f_equal; [apply Hp; exact E1 | apply IH; exact E2].
Qed.

Lemma binop_eqb_eq a b : binop_eqb a b = true -> a = b.
Proof. destruct a, b; simpl; intros; try discriminate; reflexivity. Qed.

Lemma dtype_eqb_eq a b : dtype_eqb a b = true -> a = b.
Proof. destruct a, b; simpl; intros; try discriminate; reflexivity. Qed.

Ltac split_ands :=
  repeat match goal with
         | H : _ && _ = true |- _ => apply andb_true_iff in H; destruct H
         end.

Ltac eq_atoms :=
  repeat match goal with
         | H : Pos.eqb _ _ = true |- _ => apply Pos.eqb_eq in H; subst
         | H : Z.eqb _ _ = true |- _ => apply Z.eqb_eq in H; subst
         | H : String.eqb _ _ = true |- _ => apply String.eqb_eq in H; subst
         | H : binop_eqb _ _ = true |- _ => apply binop_eqb_eq in H; subst
         | H : dtype_eqb _ _ = true |- _ => apply dtype_eqb_eq in H; subst
         | H : Bool.eqb _ _ = true |- _ => apply Bool.eqb_prop in H; subst
         end.

Lemma expr_eqb_eq : forall a b, expr_eqb a b = true -> a = b.
Proof.
  induction a using expr_ind'; intros b0 E; destruct b0; simpl in E; try discriminate;
    fold elist_eqb in E; split_ands; eq_atoms;
    repeat match goal with
           | H : Forall _ ?l, E : elist_eqb ?l _ = true |- _ => apply (elist_eqb_eq l H) in E; subst
           | IH : forall b, expr_eqb ?x b = true -> ?x = b, E : expr_eqb ?x _ = true |- _ =>
               apply IH in E; subst
           end; reflexivity.
Qed.

Lemma list_eqb_eq {A} (f : A -> A -> bool) (Hf : forall a b, f a b = true -> a = b) :
  forall l1 l2, list_eqb f l1 l2 = true -> l1 = l2.
Proof.
  induction l1 as [|a l1 IH]; intros [|b l2] E; simpl in E; try discriminate; [reflexivity|].
  apply andb_true_iff in E. destruct E as [E1 E2]. f_equal; [apply Hf; exact E1 | apply IH; exact E2].
Qed.

Lemma lval_eqb_eq a b : lval_eqb a b = true -> a = b.
Proof.
  destruct a, b; simpl; intros E; try discriminate; split_ands; eq_atoms; [reflexivity|].
  f_equal. eapply list_eqb_eq; [apply expr_eqb_eq | eassumption].
Qed.

Definition slist_eqb : list stmt -> list stmt -> bool :=
  fix go (l1 l2 : list stmt) : bool :=
    match l1, l2 with
    | [], [] => true
    | p :: l1', q :: l2' => stmt_eqb p q && go l1' l2'
    | _, _ => false
    end.

Lemma slist_eqb_eq l1 :
  Forall (fun p => forall q, stmt_eqb p q = true -> p = q) l1 ->
  forall l2, slist_eqb l1 l2 = true -> l1 = l2.
Proof.
  induction 1 as [|p l1 Hp Hl IH]; intros l2 E; destruct l2 as [|q l2]; simpl in E; try discriminate.
  - reflexivity.
  - apply andb_true_iff in E. destruct E as [E1 E2]. f_equal; [apply Hp; exact E1 | apply IH; exact E2].
Qed.

Lemma stmt_eqb_eq : forall a b, stmt_eqb a b = true -> a = b.
Proof.
  induction a using stmt_ind'; intros b0 E; destruct b0; simpl in E; try discriminate;
    fold slist_eqb in E; split_ands; eq_atoms;
    repeat match goal with
           | E : expr_eqb _ _ = true |- _ => apply expr_eqb_eq in E; subst
           | E : lval_eqb _ _ = true |- _ => apply lval_eqb_eq in E; subst
           | E : list_eqb Z.eqb _ _ = true |- _ => apply (list_eqb_eq Z.eqb (fun a b => proj1 (Z.eqb_eq a b))) in E; subst
           | E : list_eqb expr_eqb _ _ = true |- _ => apply (list_eqb_eq expr_eqb expr_eqb_eq) in E; subst
           | H : Forall _ ?l, E : slist_eqb ?l _ = true |- _ => apply (slist_eqb_eq l H) in E; subst
           end; reflexivity.
Qed.

(* ------------------------------------------------------------------ *)

Section Sound.
Set Default Proof Using "All".

Variable T : Type.
Variable of_Z : Z -> T.
Variable of_lit : Z -> Z -> T.
Variable of_clit : Z -> Z -> Z -> Z -> T.
Variable tadd tsub tmul tdiv : T -> T -> T.
Variable tneg : T -> T.
Variable teqb tltb tleb : T -> T -> bool.
Variable tfn : string -> list T -> T.

Notation exec := (@exec T of_Z of_lit of_clit tadd tsub tmul tdiv tneg teqb tltb tleb tfn).
Notation exec_list := (@exec_list T of_Z of_lit of_clit tadd tsub tmul tdiv tneg teqb tltb tleb tfn).
Notation lref := (@lref T of_Z of_lit of_clit tadd tsub tmul tdiv tneg teqb tltb tleb tfn).
Notation lref_refl := (@lref_refl T of_Z of_lit of_clit tadd tsub tmul tdiv tneg teqb tltb tleb tfn).
Notation lref_trans := (@lref_trans T of_Z of_lit of_clit tadd tsub tmul tdiv tneg teqb tltb tleb tfn).
Notation lref_app := (@lref_app T of_Z of_lit of_clit tadd tsub tmul tdiv tneg teqb tltb tleb tfn).
Notation lref_eq := (@lref_eq T of_Z of_lit of_clit tadd tsub tmul tdiv tneg teqb tltb tleb tfn).
Notation lref_block := (@lref_block T of_Z of_lit of_clit tadd tsub tmul tdiv tneg teqb tltb tleb tfn).
Notation lref_block_merge := (@lref_block_merge T of_Z of_lit of_clit tadd tsub tmul tdiv tneg teqb tltb tleb tfn).
Notation lref_fuse_loops := (@lref_fuse_loops T of_Z of_lit of_clit tadd tsub tmul tdiv tneg teqb tltb tleb tfn).
Notation reorder_sound := (@reorder_sound T of_Z of_lit of_clit tadd tsub tmul tdiv tneg teqb tltb tleb tfn).
Notation exec_list_norm1 := (@exec_list_norm1 T of_Z of_lit of_clit tadd tsub tmul tdiv tneg teqb tltb tleb tfn).

Definition is_nil {A} (l : list A) : bool := match l with [] => true | _ => false end.

Lemma is_nil_eq {A} (l : list A) : is_nil l = true -> l = [].
Proof. destruct l; [reflexivity | discriminate]. Qed.

(* ---------- fuse_loops ---------- *)

Definition unfused (kb : lkey * list (list stmt)) : list stmt :=
  match kb with ((i, b, e), bodies) => map (fun X => SFor i b e X) bodies end.

Definition bucket_ok (kb : lkey * list (list stmt)) : bool :=
  match kb with
  | ((i, b, e), bodies) =>
      negb (is_nil bodies) && forallb (fun X => is_nil (declared_list X)) bodies && loops_indep i bodies
  end.

Definition fuse_loops_mid (l : list stmt) : list stmt :=
  filter (fun st => negb (is_for st)) l ++ flat_map unfused (loop_buckets l).

Definition fuse_loops_ok (l : list stmt) : bool :=
  reorder_ok stmt_eqb l (fuse_loops_mid l) && forallb bucket_ok (loop_buckets l).

Lemma lref_buckets inp : forall bk,
  forallb bucket_ok bk = true -> lref inp (flat_map unfused bk) (map mk_loop bk).
Proof.
  induction bk as [|[[[i b] e] bodies] bk IH]; intros H; simpl in *; [apply lref_refl|].
  apply andb_true_iff in H. destruct H as [Hb Hr].
  apply andb_true_iff in Hb. destruct Hb as [Hb Hind].
  apply andb_true_iff in Hb. destruct Hb as [Hne Hd].
  change (SFor i b e (map wrap_body bodies) :: map mk_loop bk)
    with ([SFor i b e (map wrap_body bodies)] ++ map mk_loop bk).
  apply lref_app; [|apply IH; exact Hr].
  apply lref_fuse_loops with (n := Z.to_nat (e - b)); try reflexivity.
  - destruct bodies; [discriminate | congruence].
  - apply Forall_forall. intros X HX. rewrite forallb_forall in Hd. apply is_nil_eq. apply Hd. exact HX.
  - exact Hind.
Qed.

Lemma declared_filter_nonloops l :
  declared_list (filter (fun st => negb (is_for st)) l) = declared_list l.
Proof.
  unfold declared_list. induction l as [|s l IH]; simpl; [reflexivity|].
  destruct s; simpl; rewrite ?IH; reflexivity.
Qed.

Lemma declared_mk_loops bk : declared_list (map mk_loop bk) = [].
Proof.
  unfold declared_list. induction bk as [|[[[i b] e] bodies] bk IH]; simpl; [reflexivity | exact IH].
Qed.

Lemma declared_list_app l1 l2 : declared_list (l1 ++ l2) = declared_list l1 ++ declared_list l2.
Proof. unfold declared_list. apply flat_map_app. Qed.

Theorem fuse_loops_stmts_sound inp l :
  fuse_loops_ok l = true ->
  lref inp l (map norm1 (filter (fun st => negb (is_for st)) l) ++ map mk_loop (loop_buckets l)).
Proof.
  unfold fuse_loops_ok. intros H. apply andb_true_iff in H. destruct H as [Hre Hbk].
  apply lref_trans with (l2 := fuse_loops_mid l).
  - apply (reorder_sound inp stmt_eqb stmt_eqb_eq). exact Hre.
  - unfold fuse_loops_mid. apply lref_app.
    + apply lref_eq. intros st. symmetry. apply exec_list_norm1.
    + apply lref_buckets. exact Hbk.
Qed.

Lemma fuse_loops_declared l :
  declared_list (map norm1 (filter (fun st => negb (is_for st)) l) ++ map mk_loop (loop_buckets l))
  = declared_list l.
Proof.
  rewrite declared_list_app, declared_mk_loops, app_nil_r, declared_list_norm1.
  apply declared_filter_nonloops.
Qed.

Lemma fuse_loops_nil l :
  map norm1 (filter (fun st => negb (is_for st)) l) ++ map mk_loop (loop_buckets l) = [] -> l = [].
Proof.
  intros H. apply app_eq_nil in H. destruct H as [H1 H2].
  apply map_eq_nil in H1. apply map_eq_nil in H2.
  destruct l as [|s l]; [reflexivity|]. exfalso.
  destruct (is_for s) eqn:Es.
  - destruct s; try discriminate.
    assert (G : bucket (i, b, e) (loop_buckets (SFor i b e body :: l)) <> []).
    { rewrite fuse_loops_collects_each_range. unfold bodies_with. cbn [flat_map]. rewrite lkey_eqb_refl. discriminate. }
    rewrite H2 in G. simpl in G. congruence.
  - simpl in H1. rewrite Es in H1. simpl in H1. discriminate.
Qed.

(* the section as the C formatter prints it: declarations ; { statements } *)
Theorem fuse_loops_sound inp s :
  fuse_loops_ok (sstmts s) = true ->
  lref inp (desugar_section s) (desugar_section (fuse_loops s)).
Proof.
  intros H. unfold desugar_section. apply lref_app; [apply lref_refl|].
  simpl sstmts.
  set (l := sstmts s) in *.
  set (l' := map norm1 (filter (fun st => negb (is_for st)) l) ++ map mk_loop (loop_buckets l)).
  destruct l as [|s0 l0] eqn:El.
  - subst l'. simpl. apply lref_refl.
  - destruct l' as [|s1 l1] eqn:El'.
    + subst l'. apply fuse_loops_nil in El'. discriminate.
    + rewrite <- El'. apply lref_block.
      * subst l'. apply fuse_loops_stmts_sound. exact H.
      * subst l'. rewrite fuse_loops_declared. intros x; reflexivity.
Qed.

(* ---------- fuse_sections ---------- *)

Fixpoint split_first (n : string) (code : list item) : option (list item * section * list item) :=
  match code with
  | [] => None
  | it :: r =>
      match named n it with
      | Some s => Some ([], s, r)
      | None => match split_first n r with
                | Some (pre, s, rest) => Some (it :: pre, s, rest)
                | None => None
                end
      end
  end.

Lemma split_first_spec n : forall code pre s rest,
  split_first n code = Some (pre, s, rest) ->
  code = pre ++ ISec s :: rest /\ named_sections n pre = [] /\ sname s = n.
Proof.
  induction code as [|it r IH]; simpl; intros pre s rest H; [discriminate|].
  destruct (named n it) as [s0|] eqn:En.
  - inversion H; subst. destruct (named_sname n it s En) as [Hn ->]. repeat split; assumption.
  - destruct (split_first n r) as [[[p s1] q]|]; [|discriminate]. inversion H; subst.
    destruct (IH p s rest eq_refl) as [-> [Hp Hs]]. repeat split; [|exact Hs].
    unfold named_sections in *. simpl. rewrite En. simpl. exact Hp.
Qed.

Lemma split_first_none n : forall code, split_first n code = None -> named_sections n code = [].
Proof.
  unfold named_sections. induction code as [|it r IH]; simpl; intros H; [reflexivity|].
  destruct (named n it) eqn:En; [discriminate|].
  destruct (split_first n r) as [[[p s1] q]|]; [discriminate|]. simpl. apply IH. reflexivity.
Qed.

Lemma named_sections_app n a b : named_sections n (a ++ b) = named_sections n a ++ named_sections n b.
Proof. unfold named_sections. apply flat_map_app. Qed.

Lemma named_sections_cons n s rest : sname s = n ->
  named_sections n (ISec s :: rest) = s :: named_sections n rest.
Proof. intros <-. unfold named_sections. simpl. rewrite String.eqb_refl. reflexivity. Qed.

Lemma desugar_app a b : desugar (a ++ b) = desugar a ++ desugar b.
Proof. unfold desugar. apply flat_map_app. Qed.

Definition nonempty {A} (l : list A) : bool := negb (is_nil l).

Lemma concat_nonempty {A} (ls : list (list A)) : List.concat (filter nonempty ls) = List.concat ls.
Proof.
  induction ls as [|l ls IH]; simpl; [reflexivity|].
  destruct l; simpl; rewrite IH; reflexivity.
Qed.

Lemma merge_blocks inp : forall Ss S1,
  declared_list S1 = [] -> Forall (fun S => declared_list S = []) Ss ->
  lref inp (map SBlock (S1 :: Ss)) [SBlock (S1 ++ List.concat Ss)].
Proof.
  induction Ss as [|S2 Ss IH]; intros S1 H1 HF; simpl.
  - rewrite app_nil_r. apply lref_refl.
  - inversion HF as [|? ? H2 HF']; subst.
    apply lref_trans with (l2 := [SBlock (S1 ++ S2)] ++ map SBlock Ss).
    + change (SBlock S1 :: SBlock S2 :: map SBlock Ss) with ([SBlock S1; SBlock S2] ++ map SBlock Ss).
      apply lref_app; [apply lref_block_merge; exact H1 | apply lref_refl].
    + rewrite app_assoc. apply (IH (S1 ++ S2)); [|exact HF'].
      rewrite declared_list_app, H1, H2. reflexivity.
Qed.

Definition block_of (l : list stmt) : list stmt := match l with [] => [] | _ => [SBlock l] end.

Lemma merge_blocks_norm inp Ss :
  Forall (fun S => declared_list S = []) Ss -> forallb nonempty Ss = true ->
  lref inp (map SBlock Ss) (block_of (map norm1 (List.concat Ss))).
Proof.
  intros HF Hne. destruct Ss as [|S1 Ss]; [simpl; apply lref_refl|].
  inversion HF as [|? ? H1 HF']; subst.
  simpl in Hne. apply andb_true_iff in Hne. destruct Hne as [Hn1 _].
  apply lref_trans with (l2 := [SBlock (S1 ++ List.concat Ss)]); [apply merge_blocks; assumption|].
  simpl List.concat. destruct S1 as [|x S1]; [discriminate|]. simpl.
  apply lref_block.
  - apply lref_eq. intros st. symmetry. apply (exec_list_norm1 inp ((x :: S1) ++ List.concat Ss)).
  - intros y. change (norm1 x :: map norm1 (S1 ++ List.concat Ss)) with (map norm1 ((x :: S1) ++ List.concat Ss)).
    rewrite declared_list_norm1. reflexivity.
Qed.

Definition notnamed (n : string) (it : item) : bool := negb (is_named n it).

Definition fuse_sections_mid (n : string) (s : section) (rest : list item) : list stmt :=
  let secs := s :: named_sections n rest in
  flat_map sdecls secs ++ map SBlock (filter nonempty (map sstmts secs)) ++ desugar (filter (notnamed n) rest).

Definition fuse_sections_ok (code : list item) (n : string) : bool :=
  match split_first n code with
  | None => true
  | Some (pre, s, rest) =>
      reorder_ok stmt_eqb (desugar_section s ++ desugar rest) (fuse_sections_mid n s rest)
      && forallb (fun s' => is_nil (declared_list (sstmts s'))) (s :: named_sections n rest)
  end.

Lemma desugar_section_block s : desugar_section s = sdecls s ++ block_of (sstmts s).
Proof. unfold desugar_section, block_of. destruct (sstmts s); reflexivity. Qed.

Lemma filter_nonempty_all {A} (ls : list (list A)) : forallb nonempty (filter nonempty ls) = true.
Proof.
  induction ls as [|l ls IH]; simpl; [reflexivity|].
  destruct (nonempty l) eqn:E; simpl; [rewrite E; exact IH | exact IH].
Qed.

Theorem fuse_sections_sound inp code n :
  fuse_sections_ok code n = true -> lref inp (desugar code) (desugar (fuse_sections code n)).
Proof.
  unfold fuse_sections_ok. intros H.
  destruct (split_first n code) as [[[pre s] rest]|] eqn:Es.
  - destruct (split_first_spec n code pre s rest Es) as [Hc [Hpre Hs]].
    apply andb_true_iff in H. destruct H as [Hre Hd].
    assert (Hit : is_named n (ISec s) = true) by (apply is_named_sec; exact Hs).
    rewrite (fuse_sections_shape code n pre (ISec s) rest Hc Hpre Hit).
    rewrite Hc at 1. rewrite !desugar_app. apply lref_app; [apply lref_refl|].
    change (desugar (ISec s :: rest)) with (desugar_section s ++ desugar rest).
    change (desugar (ISec (fused_section n code) :: filter (fun x => negb (is_named n x)) rest))
      with (desugar_section (fused_section n code) ++ desugar (filter (notnamed n) rest)).
    apply lref_trans with (l2 := fuse_sections_mid n s rest).
    { apply (reorder_sound inp stmt_eqb stmt_eqb_eq). exact Hre. }
    assert (Hsecs : named_sections n code = s :: named_sections n rest).
    { rewrite Hc, named_sections_app, Hpre. simpl. apply named_sections_cons. exact Hs. }
    unfold fuse_sections_mid. rewrite desugar_section_block.
    destruct (fused_section_contents code n) as [Hst [Hde _]]. rewrite Hst, Hde, Hsecs.
    rewrite <- app_assoc. apply lref_app; [apply lref_refl|].
    apply lref_app; [|apply lref_refl].
    replace (flat_map sstmts (s :: named_sections n rest))
      with (List.concat (map sstmts (s :: named_sections n rest))) by (symmetry; apply flat_map_concat_map).
    rewrite <- (concat_nonempty (map sstmts (s :: named_sections n rest))).
    apply merge_blocks_norm; [|apply filter_nonempty_all].
    apply Forall_forall. intros S HS. apply filter_In in HS. destruct HS as [HS _].
    apply in_map_iff in HS. destruct HS as [s' [<- Hs']].
    rewrite forallb_forall in Hd. apply is_nil_eq. apply Hd. exact Hs'.
  - rewrite (fuse_sections_without_match code n (split_first_none n code Es)). apply lref_refl.
Qed.

(* ---------- optimize = licm after the fusing passes ---------- *)

Definition fuse_item (it : item) : item :=
  match it with
  | ISec s => if has_annot AFuse (sannots s) then ISec (fuse_loops s) else it
  | IStmt _ => it
  end.

Definition opt_nolicm (code : list item) : list item :=
  map fuse_item (fuse_sections (fuse_sections code "Coefficient") "Jacobian").

Definition licm_item (temps : list ident) (it : item) : option item :=
  match it with
  | ISec s => if has_annot ALicm (sannots s)
              then match licm temps s with Some s2 => Some (ISec s2) | None => None end
              else Some it
  | IStmt _ => Some it
  end.

Lemma opt_map_map {A B C} (f : B -> option C) (g : A -> B) l :
  opt_map f (map g l) = opt_map (fun x => f (g x)) l.
Proof. induction l as [|a l IH]; simpl; [reflexivity|]. rewrite IH. reflexivity. Qed.

Lemma opt_map_ext {A B} (f g : A -> option B) l : (forall a, f a = g a) -> opt_map f l = opt_map g l.
Proof. intros H. induction l as [|a l IH]; simpl; [reflexivity|]. rewrite H, IH. reflexivity. Qed.

Theorem optimize_decomposes temps code :
  optimize temps code = opt_map (licm_item temps) (opt_nolicm code).
Proof.
  unfold optimize, opt_nolicm. rewrite opt_map_map. apply opt_map_ext.
  intros [st|s]; simpl; [reflexivity|].
  destruct (has_annot AFuse (sannots s)); reflexivity.
Qed.

Definition fuse_item_ok (it : item) : bool :=
  match it with
  | ISec s => negb (has_annot AFuse (sannots s)) || fuse_loops_ok (sstmts s)
  | IStmt _ => true
  end.

Definition opt_ok (code : list item) : bool :=
  let c1 := fuse_sections code "Coefficient" in
  let c2 := fuse_sections c1 "Jacobian" in
  fuse_sections_ok code "Coefficient" && fuse_sections_ok c1 "Jacobian" && forallb fuse_item_ok c2.

Lemma fuse_items_sound inp : forall c, forallb fuse_item_ok c = true ->
  lref inp (desugar c) (desugar (map fuse_item c)).
Proof.
  induction c as [|it c IH]; intros H; simpl in *; [apply lref_refl|].
  apply andb_true_iff in H. destruct H as [Hit Hc].
  change (desugar (it :: c)) with (desugar_item it ++ desugar c).
  change (desugar (fuse_item it :: map fuse_item c)) with (desugar_item (fuse_item it) ++ desugar (map fuse_item c)).
  apply lref_app; [|apply IH; exact Hc].
  destruct it as [st|s]; simpl in *; [apply lref_refl|].
  destruct (has_annot AFuse (sannots s)); simpl in *; [|apply lref_refl].
  apply (fuse_loops_sound inp s). exact Hit.
Qed.

(* THE theorem of this file: the two fusing passes of optimizer.optimize, as modelled, refine the code
   they are given whenever the decidable side condition holds *)
Theorem opt_nolicm_sound inp code :
  opt_ok code = true -> lref inp (desugar code) (desugar (opt_nolicm code)).
Proof.
  unfold opt_ok, opt_nolicm. intros H.
  apply andb_true_iff in H. destruct H as [H H3]. apply andb_true_iff in H. destruct H as [H1 H2].
  eapply lref_trans; [apply fuse_sections_sound; exact H1|].
  eapply lref_trans; [apply fuse_sections_sound; exact H2|].
  apply fuse_items_sound. exact H3.
Qed.

End Sound.
