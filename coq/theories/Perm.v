(* Perm.v — the quadrature permutations of interior facets (C03).
   gen/PermGen.v holds FFCx's point maps (permute_quadrature_interval/triangle/quadrilateral) and
   the order in which the permuted tables are stacked: code c = 2*rotations + reflections,
   rotations applied first.  Here: for every code the map is the symmetry of the reference facet
   whose action on the vertex shape functions is the permutation listed in the tables below
   (the convention shared with the caller, pinned); the tables are exactly the symmetric group of
   the triangle, the dihedral group of the square and the two orientations of the interval;
   hence for every way the two cells can number the vertices of a shared (affine / bilinear)
   facet there is a code under which both sides see the same physical point at every
   quadrature point. *)
From Coq Require Import QArith List Lia Bool Arith.
From FFCXGen Require Import PermGen.
Import ListNotations.
Open Scope Q_scope.

Fixpoint iter {A} (n : nat) (f : A -> A) (x : A) : A :=
  match n with O => x | S k => f (iter k f x) end.

Definition apply_triangle (c : nat) (p : Q * Q) : Q * Q :=
  let rf := nth c triangle_codes (0, 0)%nat in iter (snd rf) triangle_ref (iter (fst rf) triangle_rot p).
Definition apply_quadrilateral (c : nat) (p : Q * Q) : Q * Q :=
  let rf := nth c quadrilateral_codes (0, 0)%nat in iter (snd rf) quadrilateral_ref (iter (fst rf) quadrilateral_rot p).
Definition apply_interval (c : nat) (x : Q) : Q :=
  let rf := nth c interval_codes (0, 0)%nat in iter (snd rf) interval_ref x.

(* vertex shape functions of the reference facets (vertices in basix order) *)
Definition N2 (i : nat) (x : Q) : Q := match i with O => 1 - x | _ => x end.
Definition N3 (i : nat) (p : Q * Q) : Q :=
  let (x, y) := p in match i with O => 1 - x - y | S O => x | _ => y end.
Definition N4 (i : nat) (p : Q * Q) : Q :=
  let (x, y) := p in match i with O => (1 - x) * (1 - y) | S O => x * (1 - y) | S (S O) => (1 - x) * y | _ => x * y end.

(* shape function i after the map of code c  =  shape function (table c i) before *)
Definition interval_table : list (list nat) := [[0; 1]; [1; 0]]%nat.
Definition triangle_table : list (list nat) := [[0; 1; 2]; [0; 2; 1]; [1; 2; 0]; [1; 0; 2]; [2; 0; 1]; [2; 1; 0]]%nat.
Definition quadrilateral_table : list (list nat) :=
  [[0; 1; 2; 3]; [0; 2; 1; 3]; [1; 3; 0; 2]; [1; 0; 3; 2]; [3; 2; 1; 0]; [3; 1; 2; 0]; [2; 0; 3; 1]; [2; 3; 0; 1]]%nat.

Definition sig (t : list (list nat)) (c i : nat) : nat := nth i (nth c t []) 0%nat.

Theorem interval_code_table c i x : (c < 2)%nat -> (i < 2)%nat ->
  N2 i (apply_interval c x) == N2 (sig interval_table c i) x.
Proof.
  intros Hc Hi. destruct c as [|[|c]]; try lia; destruct i as [|[|i]]; try lia;
    unfold apply_interval, sig; simpl; unfold interval_ref; ring.
Qed.

Theorem triangle_code_table c i x y : (c < 6)%nat -> (i < 3)%nat ->
  N3 i (apply_triangle c (x, y)) == N3 (sig triangle_table c i) (x, y).
Proof.
  intros Hc Hi. do 6 (destruct c as [|c]; [destruct i as [|[|[|i]]]; try lia; unfold apply_triangle, sig; simpl; ring|]). lia.
Qed.

Theorem quadrilateral_code_table c i x y : (c < 8)%nat -> (i < 4)%nat ->
  N4 i (apply_quadrilateral c (x, y)) == N4 (sig quadrilateral_table c i) (x, y).
Proof.
  intros Hc Hi. do 8 (destruct c as [|c]; [destruct i as [|[|[|[|i]]]]; try lia; unfold apply_quadrilateral, sig; simpl; ring|]). lia.
Qed.

(* the tables are the full symmetry groups *)
Fixpoint list_eqb (a b : list nat) : bool :=
  match a, b with
  | [], [] => true
  | x :: a', y :: b' => Nat.eqb x y && list_eqb a' b'
  | _, _ => false
  end.
Lemma list_eqb_eq a : forall b, list_eqb a b = true -> a = b.
Proof.
  induction a as [|x a IH]; intros [|y b] H; simpl in H; try discriminate; [reflexivity|].
  apply andb_true_iff in H. destruct H as [H1 H2]. apply Nat.eqb_eq in H1. subst. f_equal. apply IH. exact H2.
Qed.

Definition distinct3 (a b c : nat) : bool := negb (Nat.eqb a b) && negb (Nat.eqb a c) && negb (Nat.eqb b c).

Theorem triangle_table_is_the_symmetric_group a b c :
  (a < 3)%nat -> (b < 3)%nat -> (c < 3)%nat -> distinct3 a b c = true ->
  exists code, (code < 6)%nat /\ nth code triangle_table [] = [a; b; c].
Proof.
  intros Ha Hb Hc H.
  destruct a as [|[|[|a]]]; try lia; destruct b as [|[|[|b]]]; try lia; destruct c as [|[|[|c]]]; try lia;
    try discriminate H.
  - exists 0%nat. split; [lia|reflexivity].
  - exists 1%nat. split; [lia|reflexivity].
  - exists 3%nat. split; [lia|reflexivity].
  - exists 2%nat. split; [lia|reflexivity].
  - exists 4%nat. split; [lia|reflexivity].
  - exists 5%nat. split; [lia|reflexivity].
Qed.

(* symmetries of the square in tensor numbering: vertex permutations keeping the four edges *)
Definition edge4 (a b : nat) : bool :=
  existsb (fun e => (Nat.eqb (fst e) a && Nat.eqb (snd e) b) || (Nat.eqb (fst e) b && Nat.eqb (snd e) a))
          [(0, 1); (0, 2); (1, 3); (2, 3)]%nat.
Definition square_symmetry (p : list nat) : bool :=
  match p with
  | [a; b; c; d] => edge4 a b && edge4 a c && edge4 b d && edge4 c d && negb (Nat.eqb a d) && negb (Nat.eqb b c)
  | _ => false
  end.

Theorem quadrilateral_table_is_the_dihedral_group a b c d :
  (a < 4)%nat -> (b < 4)%nat -> (c < 4)%nat -> (d < 4)%nat -> square_symmetry [a; b; c; d] = true ->
  exists code, (code < 8)%nat /\ nth code quadrilateral_table [] = [a; b; c; d].
Proof.
  intros Ha Hb Hc Hd H.
  assert (E : existsb (list_eqb [a; b; c; d]) quadrilateral_table = true).
  { destruct a as [|[|[|[|a]]]]; try lia; destruct b as [|[|[|[|b]]]]; try lia;
      destruct c as [|[|[|[|c]]]]; try lia; destruct d as [|[|[|[|d]]]]; try lia;
      vm_compute in H; try discriminate H; vm_compute; reflexivity. }
  apply existsb_exists in E. destruct E as [t [Hin Ht]]. apply list_eqb_eq in Ht. subst t.
  apply In_nth with (d := []) in Hin. destruct Hin as [n [Hn Hq]]. exists n. split; [exact Hn|exact Hq].
Qed.

(* physical points coincide: one coordinate of the facet map  F(p) = sum_i N_i(p) X_i  of each side;
   the '-' cell lists the physical vertices of the facet in the order  X-_i = X+_(pi i) *)
Definition F3 (X : nat -> Q) (p : Q * Q) : Q := N3 0 p * X 0%nat + N3 1 p * X 1%nat + N3 2 p * X 2%nat.
Definition F4 (X : nat -> Q) (p : Q * Q) : Q := N4 0 p * X 0%nat + N4 1 p * X 1%nat + N4 2 p * X 2%nat + N4 3 p * X 3%nat.
Definition F2 (X : nat -> Q) (x : Q) : Q := N2 0 x * X 0%nat + N2 1 x * X 1%nat.

Theorem triangle_points_coincide_for_some_code (X : nat -> Q) a b c :
  (a < 3)%nat -> (b < 3)%nat -> (c < 3)%nat -> distinct3 a b c = true ->
  exists code, (code < 6)%nat /\
    forall x y, F3 (fun i => X (nth i [a; b; c] 0%nat)) (apply_triangle code (x, y)) == F3 X (x, y).
Proof.
  intros Ha Hb Hc H.
  destruct a as [|[|[|a]]]; try lia; destruct b as [|[|[|b]]]; try lia; destruct c as [|[|[|c]]]; try lia;
    try discriminate H.
  all: first [ exists 0%nat; split; [lia|]; intros x y; unfold F3, apply_triangle; simpl; ring
             | exists 1%nat; split; [lia|]; intros x y; unfold F3, apply_triangle; simpl; ring
             | exists 2%nat; split; [lia|]; intros x y; unfold F3, apply_triangle; simpl; ring
             | exists 3%nat; split; [lia|]; intros x y; unfold F3, apply_triangle; simpl; ring
             | exists 4%nat; split; [lia|]; intros x y; unfold F3, apply_triangle; simpl; ring
             | exists 5%nat; split; [lia|]; intros x y; unfold F3, apply_triangle; simpl; ring ].
Qed.

Theorem interval_points_coincide_for_some_code (X : nat -> Q) a b :
  (a < 2)%nat -> (b < 2)%nat -> a <> b ->
  exists code, (code < 2)%nat /\ forall x, F2 (fun i => X (nth i [a; b] 0%nat)) (apply_interval code x) == F2 X x.
Proof.
  intros Ha Hb H. destruct a as [|[|a]]; try lia; destruct b as [|[|b]]; try lia; try congruence;
    [exists 0%nat | exists 1%nat]; (split; [lia|]); intros x; unfold F2, apply_interval; simpl; unfold interval_ref; ring.
Qed.

Theorem quadrilateral_points_coincide_for_some_code (X : nat -> Q) a b c d :
  (a < 4)%nat -> (b < 4)%nat -> (c < 4)%nat -> (d < 4)%nat -> square_symmetry [a; b; c; d] = true ->
  exists code, (code < 8)%nat /\
    forall x y, F4 (fun i => X (nth i [a; b; c; d] 0%nat)) (apply_quadrilateral code (x, y)) == F4 X (x, y).
Proof.
  intros Ha Hb Hc Hd H.
  destruct a as [|[|[|[|a]]]]; try lia; destruct b as [|[|[|[|b]]]]; try lia;
    destruct c as [|[|[|[|c]]]]; try lia; destruct d as [|[|[|[|d]]]]; try lia;
    vm_compute in H; try discriminate H.
  all: first [ exists 0%nat; split; [lia|]; intros x y; unfold F4, apply_quadrilateral; simpl; ring
             | exists 1%nat; split; [lia|]; intros x y; unfold F4, apply_quadrilateral; simpl; ring
             | exists 2%nat; split; [lia|]; intros x y; unfold F4, apply_quadrilateral; simpl; ring
             | exists 3%nat; split; [lia|]; intros x y; unfold F4, apply_quadrilateral; simpl; ring
             | exists 4%nat; split; [lia|]; intros x y; unfold F4, apply_quadrilateral; simpl; ring
             | exists 5%nat; split; [lia|]; intros x y; unfold F4, apply_quadrilateral; simpl; ring
             | exists 6%nat; split; [lia|]; intros x y; unfold F4, apply_quadrilateral; simpl; ring
             | exists 7%nat; split; [lia|]; intros x y; unfold F4, apply_quadrilateral; simpl; ring ].
Qed.
