(* Mono.v — execution is monotone in the (partial) input memory, hence an
   accepted kernel's result depends only on the input cells the contract
   allows it to read (non-interference):  C05 (disabled coefficients),
   C03 (permutation unread), C02/C08 (entity / permutation pointers of cell kernels). *)

From Coq Require Import ZArith List Bool String FMapPositive Lia.
From FFCX Require Import LN Check SoundExpr SoundStmt.
Import ListNotations.
Open Scope Z_scope.

Section Mono.
Set Default Proof Using "All".

Variable T : Type.
Variable of_Z : Z -> T.
Variable of_lit : Z -> Z -> T.
Variable of_clit : Z -> Z -> Z -> Z -> T.
Variable tadd tsub tmul tdiv : T -> T -> T.
Variable tneg : T -> T.
Variable teqb tltb tleb : T -> T -> bool.
Variable tfn : string -> list T -> T.

Notation val := (@val T).
Notation store := (@store T).
Notation inputs := (@inputs T).
Notation eval := (@eval T of_Z of_lit of_clit tadd tsub tmul tdiv tneg teqb tltb tleb tfn).
Notation evals := (@evals T of_Z of_lit of_clit tadd tsub tmul tdiv tneg teqb tltb tleb tfn).
Notation exec := (@exec T of_Z of_lit of_clit tadd tsub tmul tdiv tneg teqb tltb tleb tfn).
Notation exec_list := (@exec_list T of_Z of_lit of_clit tadd tsub tmul tdiv tneg teqb tltb tleb tfn).
Notation loop := (@loop T of_Z of_lit of_clit tadd tsub tmul tdiv tneg teqb tltb tleb tfn).
Notation write := (@write T of_Z of_lit of_clit tadd tsub tmul tdiv tneg teqb tltb tleb tfn).
Notation run_kernel := (@run_kernel T of_Z of_lit of_clit tadd tsub tmul tdiv tneg teqb tltb tleb tfn).
Notation val_ty_ok := (@val_ty_ok T).
Notation inp_ok := (@inp_ok T).
Notation A_ok := (@A_ok T).

Definition inp_le (i1 i2 : inputs) : Prop :=
  forall a k v, i1 a k = Some v -> i2 a k = Some v.

Lemma opt_map_mono {A B} (f g : A -> option B) l r :
  Forall (fun a => forall b, f a = Some b -> g a = Some b) l ->
  opt_map f l = Some r -> opt_map g l = Some r.
Proof.
  intros HF. revert r. induction HF as [|a l Ha Hl IH]; intros r E; simpl in *.
  - exact E.
  - destruct (f a) as [b|] eqn:Ea; [|discriminate].
    destruct (opt_map f l) as [bs|] eqn:El; [|discriminate].
    rewrite (Ha b eq_refl), (IH bs eq_refl). exact E.
Qed.

Lemma eval_mono i1 i2 st :
  inp_le i1 i2 -> forall e v, eval i1 st e = Some v -> eval i2 st e = Some v.
Proof.
  intros Hle e. induction e using expr_ind'; intros v E; simpl in *; try exact E.
  - (* EAcc *)
    destruct (opt_map (eval i1 st) idx) as [vs|] eqn:Ei; [|discriminate].
    rewrite (opt_map_mono _ _ idx vs H Ei).
    destruct (opt_map as_int vs) as [is|]; [|discriminate].
    destruct (is_input a); [|exact E].
    destruct is as [|k [|? ?]]; try discriminate. apply Hle. exact E.
  - destruct (eval i1 st e) as [x|] eqn:Ex; [|discriminate]. rewrite (IHe x eq_refl). exact E.
  - destruct (eval i1 st e) as [x|] eqn:Ex; [|discriminate]. rewrite (IHe x eq_refl). exact E.
  - destruct (eval i1 st e1) as [x|] eqn:Ex; [|discriminate].
    destruct (eval i1 st e2) as [y|] eqn:Ey; [|discriminate].
    rewrite (IHe1 x eq_refl), (IHe2 y eq_refl). exact E.
  - destruct (opt_map (eval i1 st) args) as [vs|] eqn:Ei; [|discriminate].
    rewrite (opt_map_mono _ _ args vs H Ei). exact E.
  - destruct (opt_map (eval i1 st) args) as [vs|] eqn:Ei; [|discriminate].
    rewrite (opt_map_mono _ _ args vs H Ei). exact E.
  - destruct (opt_map (eval i1 st) args) as [vs|] eqn:Ei; [|discriminate].
    rewrite (opt_map_mono _ _ args vs H Ei). exact E.
  - destruct (eval i1 st e1) as [[| |[|]]|] eqn:Ec; try discriminate;
      rewrite (IHe1 _ eq_refl); auto.
Qed.

Lemma evals_mono i1 i2 st :
  inp_le i1 i2 -> forall l vs, evals i1 st l = Some vs -> evals i2 st l = Some vs.
Proof.
  intros Hle l vs E. unfold LN.evals in *. eapply opt_map_mono; [|exact E].
  apply Forall_forall. intros e _ b Hb. eapply eval_mono; eauto.
Qed.

Lemma write_mono i1 i2 st l f st' :
  inp_le i1 i2 -> write i1 st l f = Some st' -> write i2 st l f = Some st'.
Proof.
  intros Hle E. destruct l as [x|a idx]; simpl in *; [exact E|].
  destruct (LN.evals T of_Z of_lit of_clit tadd tsub tmul tdiv tneg teqb tltb tleb tfn i1 st idx)
    as [vs|] eqn:Ei; [|discriminate].
  rewrite (evals_mono i1 i2 st Hle idx vs Ei). exact E.
Qed.

Lemma seq_mono (f g : stmt -> store -> option store) l :
  Forall (fun s => forall st st', f s st = Some st' -> g s st = Some st') l ->
  forall st st', seq_gen f l st = Some st' -> seq_gen g l st = Some st'.
Proof.
  induction 1 as [|s l Hs Hl IH]; intros st st' E; simpl in *; [exact E|].
  destruct (f s st) as [st1|] eqn:E1; [|discriminate].
  rewrite (Hs st st1 E1). apply IH. exact E.
Qed.

Lemma loop_gen_mono (f g : store -> option store) i dl :
  (forall st st', f st = Some st' -> g st = Some st') ->
  forall n k st st', loop_gen T f i dl n k st = Some st' -> loop_gen T g i dl n k st = Some st'.
Proof.
  intros H. induction n as [|n IH]; intros k st st' E; simpl in *; [exact E|].
  destruct (f _) as [st1|] eqn:E1; [|discriminate].
  rewrite (H _ _ E1). apply IH. exact E.
Qed.

Theorem exec_mono i1 i2 :
  inp_le i1 i2 -> forall s st st', exec i1 s st = Some st' -> exec i2 s st = Some st'.
Proof.
  intros Hle s. induction s using stmt_ind'; intros st st' E; simpl in *.
  - exact E.
  - destruct (fresh x st); [|discriminate].
    destruct (eval i1 st e) as [v|] eqn:Ev; [|discriminate].
    rewrite (eval_mono i1 i2 st Hle e v Ev). exact E.
  - destruct (fresh x st && _ && _); [|discriminate].
    destruct (LN.evals T of_Z of_lit of_clit tadd tsub tmul tdiv tneg teqb tltb tleb tfn i1 st vals)
      as [vs|] eqn:Ev; [|discriminate].
    rewrite (evals_mono i1 i2 st Hle vals vs Ev). exact E.
  - destruct (eval i1 st e) as [v|] eqn:Ev; [|discriminate].
    rewrite (eval_mono i1 i2 st Hle e v Ev). eapply write_mono; eauto.
  - destruct (eval i1 st e) as [v|] eqn:Ev; [|discriminate].
    rewrite (eval_mono i1 i2 st Hle e v Ev). eapply write_mono; eauto.
  - destruct (fresh i st); [|discriminate].
    eapply loop_gen_mono; [|exact E]. intros s0 s1. apply seq_mono. exact H.
  - destruct (seq_gen (exec i1) body st) as [st1|] eqn:E1; [|discriminate].
    rewrite (seq_mono _ _ body H st st1 E1). exact E.
  - eapply seq_mono; eauto.
Qed.

Lemma exec_list_mono i1 i2 :
  inp_le i1 i2 -> forall l st st', exec_list i1 l st = Some st' -> exec_list i2 l st = Some st'.
Proof.
  intros Hle l st st' E. unfold LN.exec_list in *. eapply seq_mono; [|exact E].
  apply Forall_forall. intros s _. apply exec_mono. exact Hle.
Qed.

(* restriction of an input memory to the cells the contract allows *)
Definition restrict (ic : ictx) (inp : inputs) : inputs :=
  fun a k => if idx_allowed ic a k then inp a k else None.

Lemma restrict_le ic inp : inp_le (restrict ic inp) inp.
Proof. intros a k v. unfold restrict. destruct (idx_allowed ic a k); [auto | discriminate]. Qed.

Lemma restrict_ok ic inp : inp_ok ic inp -> inp_ok ic (restrict ic inp).
Proof.
  intros H a c k Hc Hal. destruct (H a c k Hc Hal) as [v [Ev Hv]].
  exists v. unfold restrict. rewrite Hal. auto.
Qed.

Definition agree_on_allowed (ic : ictx) (i1 i2 : inputs) : Prop :=
  forall a k, idx_allowed ic a k = true -> i1 a k = i2 a k.

(* Non-interference: an accepted kernel computes the same A from any two
   input memories that agree on the allowed cells — whatever the other cells
   hold (NaN, garbage, unmapped). *)
Theorem kernel_noninterference ic nA body i1 i2 A0 :
  check_kernel ic nA body = true ->
  inp_ok ic i1 -> agree_on_allowed ic i1 i2 -> A_ok nA A0 ->
  exists A1, run_kernel i1 body A0 = Some A1 /\ run_kernel i2 body A0 = Some A1.
Proof.
  intros Hc Hok Hag HA.
  destruct (kernel_safe T of_Z of_lit of_clit tadd tsub tmul tdiv tneg teqb tltb tleb tfn
              ic nA body (restrict ic i1) A0 Hc (restrict_ok ic i1 Hok) HA) as [A1 [E _]].
  exists A1. unfold LN.run_kernel in *.
  destruct (LN.exec_list T of_Z of_lit of_clit tadd tsub tmul tdiv tneg teqb tltb tleb tfn
              (restrict ic i1) body (init_store A0)) as [st|] eqn:Ex; [|discriminate].
  assert (L2 : inp_le (restrict ic i1) i2).
  { intros a k v. unfold restrict. destruct (idx_allowed ic a k) eqn:Hal; [|discriminate].
    rewrite (Hag a k Hal). auto. }
  rewrite (exec_list_mono _ _ (restrict_le ic i1) body _ _ Ex).
  rewrite (exec_list_mono _ _ L2 body _ _ Ex). auto.
Qed.

End Mono.
