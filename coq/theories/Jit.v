(* Jit.v — C14 / C15: the file-system protocol of codegeneration/jit.py as a transition
   system.  One transition = one file-system call of one process (or one pure block
   between two of them).  Any number of processes, any interleaving, faults (an
   exception raised by the step) and kills (the process disappears) at every point.

     file system:  c (the .c file = lock), cached (ready marker), failed, so (the shared object)
     per process:  program counter, root-logger handlers swapped?

   pc            jit.py
   R2            get_cached_module: open(c,'x')
   W i           wait loop iteration i: i = timeout -> TimeoutError; exists(cached)?
   WL            marker seen: find_spec + exec_module (reads so)
   B1            code generation (compile_ufl_objects)
   B3            root handlers swapped; cffi starts compiling (so becomes partial)
   B4            cffi finishes linking (so complete)
   B5            open(cached,'x')                          | atomic_marker: write the build log into a temporary file
   B6            write the build log into the marker, close | atomic_marker: os.replace(temporary, cached)
   B7            restore handlers, return from _compile_objects
   B8            _load_objects (reads so)
   BX            except: os.replace(c, failed); re-raise
   Done o        returned / raised / dead *)

From Coq Require Import List Arith Bool Lia.
Import ListNotations.

Inductive so_state := SoAbsent | SoPartial | SoComplete.

Record fsys := { f_c : bool; f_cached : bool; f_failed : bool; f_so : so_state }.

Inductive outcome := Loaded | LoadedPartial | RaisedTimeout | RaisedNotFound | RaisedBuild | Dead.

Inductive pc := R2 | W (i : nat) | WL | B1 | B3 | B4 | B5 | B6 | B7 | B8 | BX | Done (o : outcome).

Record proc := { p_pc : pc; p_swapped : bool }.

Record state := { s_fs : fsys; s_procs : list proc; s_compiles : nat }.

Inductive choice := Normal | Fault | Kill.
Inductive event := Spawn | Step (pid : nat) (ch : choice).

Section Model.
Variable timeout : nat.
(* does _compile_objects restore the root logger handlers when the build raises?
   (regenerated from the source: try/finally around the compile) *)
Variable restore_on_fault : bool.
(* is the ready marker published in one atomic step AFTER its content was written
   (write to a temporary file, os.replace) rather than created empty and filled?
   (regenerated from the source) *)
Variable atomic_marker : bool.

Definition init : state :=
  {| s_fs := {| f_c := false; f_cached := false; f_failed := false; f_so := SoAbsent |};
     s_procs := []; s_compiles := 0 |}.

Definition set_c (f : fsys) b := {| f_c := b; f_cached := f_cached f; f_failed := f_failed f; f_so := f_so f |}.
Definition set_cached (f : fsys) b := {| f_c := f_c f; f_cached := b; f_failed := f_failed f; f_so := f_so f |}.
Definition set_so (f : fsys) s := {| f_c := f_c f; f_cached := f_cached f; f_failed := f_failed f; f_so := s |}.
Definition fail_rename (f : fsys) :=
  if f_c f then {| f_c := false; f_cached := f_cached f; f_failed := true; f_so := f_so f |} else f.

Definition load_outcome (s : so_state) : outcome :=
  match s with SoComplete => Loaded | SoPartial => LoadedPartial | SoAbsent => RaisedNotFound end.

(* one step of a process: new file system, new process record, compile finished? *)
Definition step_proc (f : fsys) (p : proc) (ch : choice) : option (fsys * proc * bool) :=
  let sw := p_swapped p in
  let goto pc' := {| p_pc := pc'; p_swapped := sw |} in
  match p_pc p, ch with
  | Done _, _ => None
  | _, Kill => Some (f, goto (Done Dead), false)
  | R2, Normal => if f_c f then Some (f, goto (W 0), false) else Some (set_c f true, goto B1, false)
  | W i, Normal =>
      if Nat.eqb i timeout then Some (f, goto (Done RaisedTimeout), false)
      else if f_cached f then Some (f, goto WL, false) else Some (f, goto (W (S i)), false)
  | WL, Normal => Some (f, goto (Done (load_outcome (f_so f))), false)
  | B1, Normal => Some (f, {| p_pc := B3; p_swapped := true |}, false)
  | B1, Fault => Some (f, goto BX, false)
  | B3, Normal => Some (set_so f SoPartial, goto B4, false)
  | B3, Fault => Some (f, {| p_pc := BX; p_swapped := if restore_on_fault then false else sw |}, false)
  | B4, Normal => Some (set_so f SoComplete, goto B5, true)
  | B4, Fault => Some (f, {| p_pc := BX; p_swapped := if restore_on_fault then false else sw |}, false)
  | B5, Normal =>
      if atomic_marker then Some (f, goto B6, false)
      else if f_cached f then Some (f, {| p_pc := BX; p_swapped := if restore_on_fault then false else sw |}, false)
      else Some (set_cached f true, goto B6, false)
  | B5, Fault =>
      if atomic_marker then Some (f, {| p_pc := BX; p_swapped := if restore_on_fault then false else sw |}, false)
      else None
  | B6, Normal => if atomic_marker then Some (set_cached f true, goto B7, false) else Some (f, goto B7, false)
  | B6, Fault => Some (f, {| p_pc := BX; p_swapped := if restore_on_fault then false else sw |}, false)
  | B7, Normal => Some (f, {| p_pc := B8; p_swapped := false |}, false)
  | BX, Normal => Some (fail_rename f, goto (Done RaisedBuild), false)
  | B8, Normal => Some (f, goto (Done (load_outcome (f_so f))), false)
  | _, Fault => None
  end.

Fixpoint set_nth {A} (n : nat) (x : A) (l : list A) : list A :=
  match n, l with
  | O, _ :: r => x :: r
  | S n', a :: r => a :: set_nth n' x r
  | _, [] => []
  end.

Definition step (s : state) (e : event) : option state :=
  match e with
  | Spawn => Some {| s_fs := s_fs s; s_procs := s_procs s ++ [{| p_pc := R2; p_swapped := false |}];
                     s_compiles := s_compiles s |}
  | Step pid ch =>
      match nth_error (s_procs s) pid with
      | None => None
      | Some p =>
          match step_proc (s_fs s) p ch with
          | None => None
          | Some (f', p', compiled) =>
              Some {| s_fs := f'; s_procs := set_nth pid p' (s_procs s);
                      s_compiles := if compiled then S (s_compiles s) else s_compiles s |}
          end
      end
  end.

(* run a trace, skipping events that are not enabled *)
Fixpoint run (s : state) (es : list event) : state :=
  match es with
  | [] => s
  | e :: r => match step s e with Some s' => run s' r | None => run s r end
  end.

(* ------------------------------------------------------------------ *)
(* Invariant.  With the marker created empty and then filled (atomic_marker = false) it is claimed
   for traces without a fault in the window between creating the marker and returning (a process
   at B6): see [good].  With atomic publication [good] holds of every event. *)

Definition is_builder (p : proc) : bool :=
  match p_pc p with B1 | B3 | B4 | B5 | B6 | B7 | BX => true | _ => false end.

Definition builders (l : list proc) : nat := length (filter is_builder l).

Definition ok (f : fsys) (p : proc) : Prop :=
  match p_pc p with
  | B1 | B3 | B4 | BX => f_cached f = false
  | B5 => f_cached f = false /\ f_so f = SoComplete
  | B6 => if atomic_marker then f_cached f = false /\ f_so f = SoComplete else f_cached f = true
  | B7 | B8 | WL => f_cached f = true
  | Done LoadedPartial => False
  | _ => True
  end.

Definition Inv (s : state) : Prop :=
  let f := s_fs s in
  builders (s_procs s) <= (if f_c f then 1 else 0) /\
  (f_cached f = true -> f_c f = true /\ f_so f = SoComplete) /\
  Forall (ok f) (s_procs s).

Definition good (s : state) (e : event) : Prop :=
  match e with
  | Step pid Fault => match nth_error (s_procs s) pid with
                      | Some p => p_pc p = B6 -> atomic_marker = true
                      | None => True
                      end
  | _ => True
  end.

Lemma Inv_init : Inv init.
Proof. unfold Inv, init, builders; simpl. repeat split; try constructor; try discriminate; auto. Qed.

Lemma builders_set_nth l n p p' :
  nth_error l n = Some p ->
  builders (set_nth n p' l) + (if is_builder p then 1 else 0) =
  builders l + (if is_builder p' then 1 else 0).
Proof.
  unfold builders. revert n. induction l as [|a l IH]; intros n H.
  - destruct n; discriminate.
  - destruct n as [|n]; simpl in *.
    + inversion H; subst. destruct (is_builder p), (is_builder p'); simpl; lia.
    + specialize (IH n H). destruct (is_builder a); simpl; lia.
Qed.

Lemma builders_app l p : builders (l ++ [p]) = builders l + (if is_builder p then 1 else 0).
Proof. unfold builders. rewrite filter_app, app_length. simpl. destruct (is_builder p); simpl; lia. Qed.

Lemma nth_error_Forall {A} (P : A -> Prop) l n x : Forall P l -> nth_error l n = Some x -> P x.
Proof. intros HF H. eapply Forall_forall; eauto. eapply nth_error_In; eauto. Qed.

(* a property of the other processes carries over an update of one position *)
Lemma Forall_set_nth_others {A} (P Q : A -> Prop) l n x :
  Forall P l -> Q x ->
  (forall m q, m <> n -> nth_error l m = Some q -> P q -> Q q) ->
  Forall Q (set_nth n x l).
Proof.
  revert n. induction l as [|a l IH]; intros n HF Hx Hoth; destruct n; simpl; try constructor.
  - exact Hx.
  - inversion HF; subst. clear IH. apply Forall_forall. intros q Hq.
    apply In_nth_error in Hq. destruct Hq as [m Hm].
    apply (Hoth (S m) q); [discriminate | exact Hm|].
    eapply nth_error_Forall; eauto.
  - inversion HF; subst. apply (Hoth 0 a); [discriminate | reflexivity | assumption].
  - inversion HF; subst. apply IH; auto.
    intros m q Hm Hq HP. apply (Hoth (S m) q); [congruence | exact Hq | exact HP].
Qed.

(* with a single builder in the list, every other process is not a builder *)
Lemma unique_others l n p :
  builders l <= 1 -> nth_error l n = Some p -> is_builder p = true ->
  forall m q, m <> n -> nth_error l m = Some q -> is_builder q = false.
Proof.
  unfold builders. revert n. induction l as [|a l IH]; intros n Hb Hn Hp m q Hmn Hq.
  - destruct n; discriminate.
  - destruct n as [|n], m as [|m]; simpl in *; try congruence.
    + inversion Hn; subst. rewrite Hp in Hb. simpl in Hb.
      destruct (is_builder q) eqn:E; [|reflexivity].
      assert (1 <= length (filter is_builder l)).
      { clear -Hq E. revert m Hq. induction l as [|b l IH]; intros m Hq; [destruct m; discriminate|].
        destruct m; simpl in *.
        - inversion Hq; subst. rewrite E. simpl. lia.
        - specialize (IH m Hq). destruct (is_builder b); simpl; lia. }
      lia.
    + inversion Hq; subst. destruct (is_builder q) eqn:E; [|reflexivity]. simpl in Hb.
      assert (1 <= length (filter is_builder l)).
      { clear -Hn Hp. revert n Hn. induction l as [|b l IH]; intros n Hn; [destruct n; discriminate|].
        destruct n; simpl in *.
        - inversion Hn; subst. rewrite Hp. simpl. lia.
        - specialize (IH n Hn). destruct (is_builder b); simpl; lia. }
      lia.
    + eapply (IH n); [ | exact Hn | exact Hp | | exact Hq].
      * destruct (is_builder a); simpl in Hb; lia.
      * congruence.
Qed.

(* for a process that is not building, [ok] only needs the marker to stay *)
Lemma ok_nonbuilder_mono f f' q :
  is_builder q = false -> ok f q -> (f_cached f = true -> f_cached f' = true) -> ok f' q.
Proof.
  unfold is_builder, ok. destruct (p_pc q) as [ | i | | | | | | | | | | o]; try discriminate; auto.
Qed.

Lemma Inv_builder_lock s n p :
  Inv s -> nth_error (s_procs s) n = Some p -> is_builder p = true -> f_c (s_fs s) = true.
Proof.
  intros [H1 _] Hn Hb.
  assert (1 <= builders (s_procs s)).
  { unfold builders. clear H1. revert n Hn. induction (s_procs s) as [|a l IH]; intros n Hn.
    - destruct n; discriminate.
    - destruct n; simpl in *.
      + inversion Hn; subst. rewrite Hb. simpl. lia.
      + specialize (IH n Hn). destruct (is_builder a); simpl; lia. }
  destruct (f_c (s_fs s)); [reflexivity | lia].
Qed.

Ltac others_same :=
  (* the file system did not change *)
  match goal with
  | H3 : Forall (ok ?f) ?l |- Forall (ok ?f) (set_nth ?n ?x ?l) =>
      apply (Forall_set_nth_others (ok f) (ok f) l n x H3); [| intros ? ? _ _ Hq; exact Hq]
  end.

Theorem step_preserves_Inv s e s' :
  Inv s -> good s e -> step s e = Some s' -> Inv s'.
Proof.
  intros HI Hg Hs. destruct e as [|pid ch]; simpl in Hs.
  - inversion Hs; subst; clear Hs. destruct HI as [H1 [H2 H3]].
    unfold Inv; simpl. rewrite builders_app. simpl.
    split; [lia|]. split; [exact H2|].
    apply Forall_app. split; [exact H3 | constructor; [exact I | constructor]].
  - destruct (nth_error (s_procs s) pid) as [p|] eqn:Hn; [|discriminate].
    destruct (step_proc (s_fs s) p ch) as [[[f' p'] comp]|] eqn:Hp; [|discriminate].
    inversion Hs; subst; clear Hs.
    pose proof HI as [H1 [H2 H3]].
    pose proof (nth_error_Forall _ _ _ _ H3 Hn) as Hok.
    pose proof (builders_set_nth (s_procs s) pid p p' Hn) as Hcnt.
    simpl in Hg. rewrite Hn in Hg.
    assert (Hlock : is_builder p = true -> f_c (s_fs s) = true)
      by (intros Hb; eapply Inv_builder_lock; eauto).
    assert (Hoth : is_builder p = true ->
                   forall m q, m <> pid -> nth_error (s_procs s) m = Some q -> is_builder q = false).
    { intros Hb. apply (unique_others (s_procs s) pid p); auto.
      rewrite (Hlock Hb) in H1. exact H1. }
    unfold step_proc in Hp.
    destruct p as [ppc psw]; unfold ok in Hok; simpl in *.
    destruct ppc as [ | i | | | | | | | | | | o]; destruct ch; simpl in Hp; try discriminate.
    all: unfold Inv; simpl.
    (* R2 Normal *)
    + destruct (f_c (s_fs s)) eqn:Ec; inversion Hp; subst; clear Hp; simpl in *.
      * rewrite Ec. split; [lia|]. split; [exact H2|]. others_same. exact I.
      * assert (Hcf : f_cached (s_fs s) = false).
        { destruct (f_cached (s_fs s)) eqn:E; [|reflexivity]. destruct (H2 eq_refl) as [X _]. congruence. }
        split; [lia|]. split; [intros X; congruence|].
        apply (Forall_set_nth_others (ok (s_fs s)) _ _ _ _ H3); [unfold ok; simpl; exact Hcf|].
        intros m q _ _ Hq. unfold ok in *. simpl. exact Hq.
    (* R2 Kill *)
    + inversion Hp; subst; clear Hp. simpl in *. split; [lia|]. split; [exact H2|]. others_same. exact I.
    (* W Normal *)
    + destruct (Nat.eqb i timeout).
      * inversion Hp; subst; clear Hp. simpl in *. split; [lia|]. split; [exact H2|]. others_same. exact I.
      * remember (f_cached (s_fs s)) as cd eqn:Ecd. destruct cd; inversion Hp; subst; clear Hp; simpl in *.
        -- split; [lia|]. split; [intros _; apply H2; reflexivity|]. others_same. unfold ok. simpl. auto.
        -- split; [lia|]. split; [intros X; rewrite <- Ecd in X; discriminate X|]. others_same. exact I.
    (* W Kill *)
    + inversion Hp; subst; clear Hp. simpl in *. split; [lia|]. split; [exact H2|]. others_same. exact I.
    (* WL Normal *)
    + inversion Hp; subst; clear Hp. simpl in *. split; [lia|]. split; [exact H2|]. others_same.
      destruct (H2 Hok) as [_ Hso]. unfold ok. simpl. rewrite Hso. exact I.
    (* WL Kill *)
    + inversion Hp; subst; clear Hp. simpl in *. split; [lia|]. split; [exact H2|]. others_same. exact I.
    (* B1 Normal *)
    + inversion Hp; subst; clear Hp. simpl in *. split; [lia|]. split; [exact H2|]. others_same. exact Hok.
    (* B1 Fault *)
    + inversion Hp; subst; clear Hp. simpl in *. split; [lia|]. split; [exact H2|]. others_same. exact Hok.
    (* B1 Kill *)
    + inversion Hp; subst; clear Hp. simpl in *. rewrite (Hlock eq_refl) in *.
      split; [lia|]. split; [exact H2|]. others_same. exact I.
    (* B3 Normal *)
    + inversion Hp; subst; clear Hp. simpl in *. split; [lia|]. split; [intros X; congruence|].
      apply (Forall_set_nth_others (ok (s_fs s)) _ _ _ _ H3); [unfold ok; simpl; exact Hok|].
      intros m q Hm Hq Hokq. apply (ok_nonbuilder_mono (s_fs s)); auto. eapply Hoth; eauto.
    (* B3 Fault *)
    + inversion Hp; subst; clear Hp. simpl in *. split; [lia|]. split; [exact H2|]. others_same. exact Hok.
    (* B3 Kill *)
    + inversion Hp; subst; clear Hp. simpl in *. rewrite (Hlock eq_refl) in *.
      split; [lia|]. split; [exact H2|]. others_same. exact I.
    (* B4 Normal *)
    + inversion Hp; subst; clear Hp. simpl in *. split; [lia|]. split; [intros X; congruence|].
      apply (Forall_set_nth_others (ok (s_fs s)) _ _ _ _ H3); [unfold ok; simpl; auto|].
      intros m q Hm Hq Hokq. apply (ok_nonbuilder_mono (s_fs s)); auto. eapply Hoth; eauto.
    (* B4 Fault *)
    + inversion Hp; subst; clear Hp. simpl in *. split; [lia|]. split; [exact H2|]. others_same. exact Hok.
    (* B4 Kill *)
    + inversion Hp; subst; clear Hp. simpl in *. rewrite (Hlock eq_refl) in *.
      split; [lia|]. split; [exact H2|]. others_same. exact I.
    (* B5 Normal *)
    + destruct Hok as [Hcd Hso]. destruct atomic_marker eqn:Eat.
      * inversion Hp; subst; clear Hp. simpl in *. split; [lia|]. split; [exact H2|]. others_same.
        unfold ok. simpl. rewrite Eat. auto.
      * rewrite Hcd in Hp. inversion Hp; subst; clear Hp. simpl in *.
        rewrite (Hlock eq_refl) in *.
        split; [lia|]. split; [intros _; split; [reflexivity | exact Hso]|].
        apply (Forall_set_nth_others (ok (s_fs s)) _ _ _ _ H3); [unfold ok; simpl; rewrite Eat; reflexivity|].
        intros m q Hm Hq Hokq. apply (ok_nonbuilder_mono (s_fs s)); auto. eapply Hoth; eauto.
    (* B5 Fault: only with atomic publication (writing the temporary file fails) *)
    + destruct atomic_marker eqn:Eat; [|discriminate]. destruct Hok as [Hcd Hso].
      inversion Hp; subst; clear Hp. simpl in *. split; [lia|]. split; [exact H2|]. others_same. exact Hcd.
    (* B5 Kill *)
    + inversion Hp; subst; clear Hp. simpl in *. rewrite (Hlock eq_refl) in *.
      split; [lia|]. split; [exact H2|]. others_same. exact I.
    (* B6 Normal *)
    + destruct atomic_marker eqn:Eat.
      * destruct Hok as [Hcd Hso]. inversion Hp; subst; clear Hp. simpl in *.
        rewrite (Hlock eq_refl) in *.
        split; [lia|]. split; [intros _; split; [reflexivity | exact Hso]|].
        apply (Forall_set_nth_others (ok (s_fs s)) _ _ _ _ H3); [unfold ok; simpl; reflexivity|].
        intros m q Hm Hq Hokq. apply (ok_nonbuilder_mono (s_fs s)); auto. eapply Hoth; eauto.
      * inversion Hp; subst; clear Hp. simpl in *. split; [lia|]. split; [exact H2|]. others_same. exact Hok.
    (* B6 Fault: excluded unless publication is atomic (then the marker does not exist yet) *)
    + specialize (Hg eq_refl). rewrite Hg in Hok. destruct Hok as [Hcd Hso].
      inversion Hp; subst; clear Hp. simpl in *. split; [lia|]. split; [exact H2|]. others_same. exact Hcd.
    (* B6 Kill *)
    + inversion Hp; subst; clear Hp. simpl in *. rewrite (Hlock eq_refl) in *.
      split; [lia|]. split; [exact H2|]. others_same. exact I.
    (* B7 Normal *)
    + inversion Hp; subst; clear Hp. simpl in *. rewrite (Hlock eq_refl) in *.
      split; [lia|]. split; [exact H2|]. others_same. exact Hok.
    (* B7 Kill *)
    + inversion Hp; subst; clear Hp. simpl in *. rewrite (Hlock eq_refl) in *.
      split; [lia|]. split; [exact H2|]. others_same. exact I.
    (* B8 Normal *)
    + inversion Hp; subst; clear Hp. simpl in *. split; [lia|]. split; [exact H2|]. others_same.
      destruct (H2 Hok) as [_ Hso]. unfold ok. simpl. rewrite Hso. exact I.
    (* B8 Kill *)
    + inversion Hp; subst; clear Hp. simpl in *. split; [lia|]. split; [exact H2|]. others_same. exact I.
    (* BX Normal: the lock is released *)
    + inversion Hp; subst; clear Hp. simpl in *. unfold fail_rename. rewrite (Hlock eq_refl).
      rewrite (Hlock eq_refl) in H1. simpl.
      split; [lia|]. split; [intros X; congruence|].
      apply (Forall_set_nth_others (ok (s_fs s)) _ _ _ _ H3); [exact I|].
      intros m q Hm Hq Hokq. apply (ok_nonbuilder_mono (s_fs s)); auto. eapply Hoth; eauto.
    (* BX Kill *)
    + inversion Hp; subst; clear Hp. simpl in *. rewrite (Hlock eq_refl) in *.
      split; [lia|]. split; [exact H2|]. others_same. exact I.
Qed.

(* ---------- consequences over all traces ---------- *)

Fixpoint good_trace (s : state) (es : list event) : Prop :=
  match es with
  | [] => True
  | e :: r => match step s e with
              | Some s' => good s e /\ good_trace s' r
              | None => good_trace s r
              end
  end.

Theorem run_Inv : forall es s, Inv s -> good_trace s es -> Inv (run s es).
Proof.
  induction es as [|e es IH]; intros s HI Hg; simpl in *; [exact HI|].
  destruct (step s e) as [s'|] eqn:E.
  - destruct Hg as [G1 G2]. apply IH; [eapply step_preserves_Inv; eauto | exact G2].
  - apply IH; assumption.
Qed.

(* C14: mutual exclusion — never two processes between a successful open(c,'x') and their exit *)
Theorem mutual_exclusion es :
  good_trace init es -> builders (s_procs (run init es)) <= 1.
Proof.
  intros Hg. destruct (run_Inv es init Inv_init Hg) as [H1 _].
  destruct (f_c (s_fs (run init es))); lia.
Qed.

(* C14/C15: no request ever loads a module that is not completely built *)
Theorem no_partial_load es p :
  good_trace init es -> In p (s_procs (run init es)) -> p_pc p <> Done LoadedPartial.
Proof.
  intros Hg Hin. destruct (run_Inv es init Inv_init Hg) as [_ [_ H3]].
  rewrite Forall_forall in H3. specialize (H3 p Hin). unfold ok in H3.
  intros E. rewrite E in H3. exact H3.
Qed.

(* the marker is only ever present together with the lock file and a complete module *)
Theorem marker_means_complete es :
  good_trace init es ->
  f_cached (s_fs (run init es)) = true ->
  f_c (s_fs (run init es)) = true /\ f_so (s_fs (run init es)) = SoComplete.
Proof. intros Hg. destruct (run_Inv es init Inv_init Hg) as [_ [H2 _]]. exact H2. Qed.

(* with atomic publication of the marker nothing is excluded: every trace is good *)
Lemma good_atomic s e : atomic_marker = true -> good s e.
Proof.
  intros Ha. destruct e as [|pid [| |]]; simpl; auto.
  destruct (nth_error (s_procs s) pid); auto.
Qed.

Lemma good_trace_atomic : atomic_marker = true -> forall es s, good_trace s es.
Proof.
  intros Ha. induction es as [|e es IH]; intros s; simpl; [exact I|].
  destruct (step s e); [split; [apply good_atomic; exact Ha | apply IH] | apply IH].
Qed.

(* C15 at full strength: any number of requests, any interleaving, a failure at every step that can
   fail (code generation, compile, link, writing the log, publishing the marker) and a kill anywhere *)
Theorem no_partial_load_any_trace es p :
  atomic_marker = true -> In p (s_procs (run init es)) -> p_pc p <> Done LoadedPartial.
Proof. intros Ha. apply no_partial_load. apply good_trace_atomic. exact Ha. Qed.

Theorem mutual_exclusion_any_trace es :
  atomic_marker = true -> builders (s_procs (run init es)) <= 1.
Proof. intros Ha. apply mutual_exclusion. apply good_trace_atomic. exact Ha. Qed.

Theorem marker_means_complete_any_trace es :
  atomic_marker = true ->
  f_cached (s_fs (run init es)) = true ->
  f_c (s_fs (run init es)) = true /\ f_so (s_fs (run init es)) = SoComplete.
Proof. intros Ha. apply marker_means_complete. apply good_trace_atomic. exact Ha. Qed.

(* ---------- C14: exactly one compile, reuse ---------- *)

Definition pre4 (p : proc) : bool := match p_pc p with B1 | B3 | B4 => true | _ => false end.
Definition cnt (P : proc -> bool) (l : list proc) : nat := length (filter P l).

Lemma cnt_set_nth P l n p p' :
  nth_error l n = Some p ->
  cnt P (set_nth n p' l) + (if P p then 1 else 0) = cnt P l + (if P p' then 1 else 0).
Proof.
  unfold cnt. revert n. induction l as [|a l IH]; intros n H.
  - destruct n; discriminate.
  - destruct n as [|n]; simpl in *.
    + inversion H; subst. destruct (P p), (P p'); simpl; lia.
    + specialize (IH n H). destruct (P a); simpl; lia.
Qed.

Definition no_fault (e : event) : Prop := match e with Step _ Fault => False | _ => True end.

Definition K (s : state) : Prop :=
  s_compiles s + cnt pre4 (s_procs s) <= (if f_c (s_fs s) then 1 else 0) /\
  Forall (fun p => p_pc p <> BX) (s_procs s).

Lemma K_step s e s' : Inv s -> K s -> no_fault e -> step s e = Some s' -> K s'.
Proof.
  unfold K. intros HI [HK HB] Hnf Hs. destruct e as [|pid ch]; simpl in Hs.
  - inversion Hs; subst; clear Hs. simpl. split.
    + unfold cnt in *. rewrite filter_app, app_length. simpl. lia.
    + apply Forall_app. split; [exact HB | constructor; [discriminate | constructor]].
  - destruct (nth_error (s_procs s) pid) as [p|] eqn:Hn; [|discriminate].
    destruct (step_proc (s_fs s) p ch) as [[[f' p'] comp]|] eqn:Hp; [|discriminate].
    inversion Hs; subst; clear Hs. simpl.
    pose proof (cnt_set_nth pre4 (s_procs s) pid p p' Hn) as Hc.
    pose proof (nth_error_Forall _ _ _ _ HB Hn) as Hnbx.
    destruct HI as [_ [_ H3]]. pose proof (nth_error_Forall _ _ _ _ H3 Hn) as Hok.
    assert (Hrest : forall q, q <> BX -> p_pc p' = q ->
              Forall (fun p0 => p_pc p0 <> BX) (set_nth pid p' (s_procs s))).
    { intros q Hq Hp'. apply (Forall_set_nth_others _ _ _ _ _ HB); [congruence|].
      intros m r _ _ Hr. exact Hr. }
    unfold step_proc in Hp. destruct p as [ppc psw]; unfold ok in Hok; simpl in *.
    destruct ppc as [ | i | | | | | | | | | | o]; destruct ch; simpl in Hp; try discriminate;
      try contradiction; try congruence.
    all: try (inversion Hp; subst; clear Hp; simpl in *;
              (split; [destruct (f_c (s_fs s)); lia | eapply Hrest; [|reflexivity]; discriminate])).
    + destruct (f_c (s_fs s)) eqn:Ec; inversion Hp; subst; clear Hp; simpl in *;
        (split; [try rewrite Ec; lia | eapply Hrest; [|reflexivity]; discriminate]).
    + destruct (Nat.eqb i timeout); [|destruct (f_cached (s_fs s))]; inversion Hp; subst; clear Hp;
        simpl in *; (split; [destruct (f_c (s_fs s)); lia | eapply Hrest; [|reflexivity]; discriminate]).
    + destruct Hok as [Hcd _]. destruct atomic_marker; [|rewrite Hcd in Hp]; inversion Hp; subst; clear Hp; simpl in *;
        (split; [destruct (f_c (s_fs s)); lia | eapply Hrest; [|reflexivity]; discriminate]).
    + destruct atomic_marker; inversion Hp; subst; clear Hp; simpl in *;
        (split; [destruct (f_c (s_fs s)); lia | eapply Hrest; [|reflexivity]; discriminate]).
Qed.

Fixpoint no_fault_trace (es : list event) : Prop :=
  match es with [] => True | e :: r => no_fault e /\ no_fault_trace r end.

Lemma no_fault_good s e : no_fault e -> good s e.
Proof. destruct e as [|pid [| |]]; simpl; auto. contradiction. Qed.

(* without build failures (kills allowed, any interleaving, any number of requests)
   the C compiler finishes at most once *)
Theorem single_compile es : no_fault_trace es -> s_compiles (run init es) <= 1.
Proof.
  intros Hnf.
  assert (G : forall es s, Inv s -> K s -> no_fault_trace es -> K (run s es)).
  { induction es0 as [|e r IH]; intros s0 HI0 HK0 H0; simpl in *; [exact HK0|].
    destruct H0 as [A B]. destruct (step s0 e) as [s1|] eqn:E.
    - apply IH; [eapply step_preserves_Inv; eauto; apply no_fault_good; exact A
                | eapply K_step; eauto | exact B].
    - apply IH; assumption. }
  assert (HK : K (run init es)).
  { apply G; [apply Inv_init | unfold K, init, cnt; simpl; split; [lia | constructor] | exact Hnf]. }
  destruct HK as [HK _]. destruct (f_c (s_fs (run init es))); lia.
Qed.

(* a request arriving when the marker is present loads the complete module in three
   steps, touches nothing and compiles nothing *)
Theorem reuse f sw :
  0 < timeout -> f_c f = true -> f_cached f = true -> f_so f = SoComplete ->
  step_proc f {| p_pc := R2; p_swapped := sw |} Normal = Some (f, {| p_pc := W 0; p_swapped := sw |}, false) /\
  step_proc f {| p_pc := W 0; p_swapped := sw |} Normal = Some (f, {| p_pc := WL; p_swapped := sw |}, false) /\
  step_proc f {| p_pc := WL; p_swapped := sw |} Normal = Some (f, {| p_pc := Done Loaded; p_swapped := sw |}, false).
Proof.
  intros Ht Hc Hcd Hso. unfold step_proc; simpl. rewrite Hc, Hcd, Hso.
  destruct timeout; [lia|]. simpl. auto.
Qed.

(* ---------- C15: failure releases the lock; handlers ---------- *)

Theorem fail_releases_lock f sw :
  f_c f = true ->
  exists f', step_proc f {| p_pc := BX; p_swapped := sw |} Normal
             = Some (f', {| p_pc := Done RaisedBuild; p_swapped := sw |}, false) /\
             f_c f' = false /\ f_failed f' = true /\
             (* and the next request becomes the builder instead of waiting *)
             step_proc f' {| p_pc := R2; p_swapped := false |} Normal
             = Some (set_c f' true, {| p_pc := B1; p_swapped := false |}, false).
Proof.
  intros Hc. exists (fail_rename f). unfold step_proc, fail_rename; simpl. rewrite Hc. simpl. auto.
Qed.

(* the root-logger handlers of a process are swapped only while it is inside the compile *)
Definition hok (p : proc) : Prop :=
  p_swapped p = true ->
  match p_pc p with B3 | B4 | B5 | B6 | B7 | Done Dead => True | _ => False end.

Lemma hok_step f p ch f' p' c :
  restore_on_fault = true -> hok p -> step_proc f p ch = Some (f', p', c) -> hok p'.
Proof.
  intros Hr Hh Hp. unfold step_proc in Hp. destruct p as [ppc psw]; unfold hok in *; simpl in *.
  rewrite Hr in Hp.
  destruct ppc as [ | i | | | | | | | | | | o]; destruct ch; simpl in Hp; try discriminate.
  all: repeat match goal with
              | H : (if ?c then _ else _) = Some _ |- _ => destruct c
              end;
       inversion Hp; subst; clear Hp; simpl; intros X;
       try discriminate X; try exact I; try (exfalso; exact (Hh X)); try exact (Hh X).
Qed.

Theorem handlers_restored es :
  restore_on_fault = true ->
  Forall hok (s_procs (run init es)).
Proof.
  intros Hr.
  assert (G : forall es s, Forall hok (s_procs s) -> Forall hok (s_procs (run s es))).
  { induction es0 as [|e r IH]; intros s0 H0; simpl; [exact H0|].
    destruct (step s0 e) as [s1|] eqn:E; [|apply IH; exact H0].
    apply IH. destruct e as [|pid ch]; simpl in E.
    - inversion E; subst; simpl. apply Forall_app. split; [exact H0|].
      constructor; [unfold hok; simpl; discriminate | constructor].
    - destruct (nth_error (s_procs s0) pid) as [p|] eqn:Hn; [|discriminate].
      destruct (step_proc (s_fs s0) p ch) as [[[f' p'] comp]|] eqn:Hp; [|discriminate].
      inversion E; subst; simpl.
      apply (Forall_set_nth_others hok hok _ _ _ H0).
      + eapply hok_step; eauto. eapply nth_error_Forall; eauto.
      + intros m q _ _ Hq. exact Hq. }
  apply G. constructor.
Qed.

End Model.

(* executable summary of a state, for the trace-conformance runs *)
Definition pc_code (p : pc) : nat :=
  match p with
  | Done Loaded => 0 | Done LoadedPartial => 1 | Done RaisedTimeout => 2
  | Done RaisedNotFound => 3 | Done RaisedBuild => 4 | Done Dead => 5 | _ => 9
  end.
Definition so_code (s : so_state) : nat := match s with SoAbsent => 0 | SoPartial => 1 | SoComplete => 2 end.
Definition summary (s : state) : list (nat * bool) * (bool * bool * bool * nat) * nat :=
  (map (fun p => (pc_code (p_pc p), p_swapped p)) (s_procs s),
   (f_c (s_fs s), f_cached (s_fs s), f_failed (s_fs s), so_code (f_so (s_fs s))), s_compiles s).

(* with the code as it stood (no try/finally around the compile) a failing compile leaves the
   root logger handlers swapped in a process that returns an exception to its caller *)
Example handlers_not_restored_without_finally :
  existsb (fun p => Nat.eqb (pc_code (p_pc p)) 4 && p_swapped p)
          (s_procs (run 10 false false init [Spawn; Step 0 Normal; Step 0 Normal; Step 0 Fault; Step 0 Normal])) = true.
Proof. vm_compute. reflexivity. Qed.

(* and, with the marker created empty and then filled (the code as it stood), a fault in the window
   after the marker was created poisons the cache: the marker stays, the lock is released, a later
   builder rewrites the module under a present marker and a third request can load it half-written *)
Example marker_window_refuted :
  existsb (fun p => Nat.eqb (pc_code (p_pc p)) 1)
    (s_procs (run 10 true false init
      [Spawn; Step 0 Normal; Step 0 Normal; Step 0 Normal; Step 0 Normal; Step 0 Normal;
       Step 0 Fault; Step 0 Normal;
       Spawn; Step 1 Normal; Step 1 Normal; Step 1 Normal;
       Spawn; Step 2 Normal; Step 2 Normal; Step 2 Normal])) = true.
Proof. vm_compute. reflexivity. Qed.

(* the same schedule with atomic publication: the failed write leaves no marker, the second request
   builds, the third waits *)
Example marker_window_closed :
  existsb (fun p => Nat.eqb (pc_code (p_pc p)) 1)
    (s_procs (run 10 true true init
      [Spawn; Step 0 Normal; Step 0 Normal; Step 0 Normal; Step 0 Normal;
       Step 0 Fault; Step 0 Normal;
       Spawn; Step 1 Normal; Step 1 Normal; Step 1 Normal;
       Spawn; Step 2 Normal; Step 2 Normal; Step 2 Normal])) = false.
Proof. vm_compute. reflexivity. Qed.
