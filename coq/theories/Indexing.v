(* Indexing.v — model of ffcx/ir/analysis/indexing.py: the component maps the value numbering uses for
   e1 = e2[multiindex] (Indexed) and e2 = as_tensor(e1, multiindex) (ComponentTensor).

   Both functions enumerate the total multi-indices (shape ++ free-index dimensions) of one expression in row-major
   order (ufl.permutation.compute_indices), build from each the total multi-index of the other expression, and record
   its flattened position (ufl.utils.indexflattening.flatten_multiindex with shape_to_strides).

   Proved, for all shapes and index patterns:
     enumerate_is_row_major   the k-th enumerated multi-index is the one whose row-major position is k;
     map_indexed_spec         entry  flat(p1)  of the Indexed map is  flat(p2(p1)):  component p1 of e1 (shape () plus the
                              values of its free indices) is read from the component of e2 addressed by the multi-index
                              (fixed entries as given, Index entries = the value of that free index) followed by the
                              values of e2's own free indices — what indexing means;
     map_ct_spec              entry  flat(p2)  of the ComponentTensor map is  flat(p1(p2)).
   Tied to the source by idxcorr.py (every call made while the corpus is compiled: inputs read off the UFL objects by the
   harness, outputs compared with the model). *)

From Coq Require Import List Arith Lia.
Import ListNotations.

Fixpoint prodn (l : list nat) : nat := match l with [] => 1 | n :: r => n * prodn r end.

(* ufl shape_to_strides: stride of axis k = product of the later extents *)
Fixpoint strides (shape : list nat) : list nat :=
  match shape with [] => [] | _ :: r => prodn r :: strides r end.

(* flatten_multiindex *)
Fixpoint flatten (p str : list nat) : nat :=
  match p, str with i :: p', s :: str' => i * s + flatten p' str' | _, _ => 0 end.

(* compute_indices: all multi-indices of the shape, last axis fastest *)
Fixpoint enumerate (shape : list nat) : list (list nat) :=
  match shape with
  | [] => [[]]
  | n :: r => flat_map (fun i => map (cons i) (enumerate r)) (seq 0 n)
  end.

Inductive mix := MFixed (k : nat) | MIndex (pos1 : nat).

(* Indexed:  e1 = e2[mi] *)
Definition p2_of (mi : list mix) (ind2to1 : list nat) (p1 : list nat) : list nat :=
  map (fun m => match m with MFixed k => k | MIndex pos => nth pos p1 0 end) mi ++ map (fun i => nth i p1 0) ind2to1.

Definition map_indexed (tsh1 tsh2 : list nat) (mi : list mix) (ind2to1 : list nat) : list nat :=
  map (fun p1 => flatten (p2_of mi ind2to1 p1) (strides tsh2)) (enumerate tsh1).

(* ComponentTensor:  e2 = as_tensor(e1, mi);  p1[p2_to_p1[k2]] = p2[k2], later k2 overwrite earlier ones *)
Fixpoint set_nth (n : nat) (x : nat) (l : list nat) : list nat :=
  match n, l with
  | O, _ :: r => x :: r
  | S n', a :: r => a :: set_nth n' x r
  | _, [] => []
  end.

Fixpoint scatter (p2to1 : list nat) (p2 : list nat) (acc : list nat) : list nat :=
  match p2to1, p2 with
  | k1 :: m', v :: p2' => scatter m' p2' (set_nth k1 v acc)
  | _, _ => acc
  end.

Definition p1_of (r1 : nat) (p2to1 : list nat) (p2 : list nat) : list nat := scatter p2to1 p2 (repeat 0 r1).

Definition map_ct (tsh1 tsh2 : list nat) (p2to1 : list nat) : list nat :=
  map (fun p2 => flatten (p1_of (length tsh1) p2to1 p2) (strides tsh1)) (enumerate tsh2).

(* ------------------------------------------------------------------ *)

Definition in_range (shape p : list nat) : Prop := Forall2 (fun n i => i < n) shape p.

Lemma enumerate_length : forall shape, length (enumerate shape) = prodn shape.
Proof.
  induction shape as [|n r IH]; simpl; [reflexivity|].
  assert (G : forall l, length (flat_map (fun i => map (cons i) (enumerate r)) l) = length l * prodn r).
  { induction l as [|a l IHl]; simpl; [reflexivity|]. rewrite app_length, map_length, IH, IHl. reflexivity. }
  rewrite G, seq_length. reflexivity.
Qed.

Lemma nth_flat_map_blocks {A} (f : nat -> list A) (m : nat) (d : A) :
  (forall i, length (f i) = m) ->
  forall l i j a, j < m -> nth_error l i = Some a ->
    nth (i * m + j) (flat_map f l) d = nth j (f a) d.
Proof.
  intros Hlen. induction l as [|x l IH]; intros i j a Hj Hn.
  - destruct i; discriminate.
  - destruct i; simpl in *.
    + inversion Hn; subst. rewrite app_nth1 by (rewrite Hlen; exact Hj). reflexivity.
    + rewrite app_nth2 by (rewrite Hlen; lia). rewrite Hlen.
      replace (m + i * m + j - m) with (i * m + j) by lia. apply IH; assumption.
Qed.

Lemma flatten_lt : forall shape p, in_range shape p -> flatten p (strides shape) < prodn shape.
Proof.
  induction 1 as [|n i r p Hi Hr IH]; simpl; [lia|]. nia.
Qed.

Theorem enumerate_is_row_major : forall shape p, in_range shape p ->
  nth (flatten p (strides shape)) (enumerate shape) [] = p.
Proof.
  induction 1 as [|n i r p Hi Hr IH]; simpl; [reflexivity|].
  rewrite (nth_flat_map_blocks (fun i => map (cons i) (enumerate r)) (prodn r) [])
    with (a := i).
  - rewrite (nth_indep (map (cons i) (enumerate r)) [] (cons i []))
      by (rewrite map_length, enumerate_length; apply flatten_lt; exact Hr).
    rewrite (map_nth (cons i) (enumerate r) []). rewrite IH. reflexivity.
  - intros k. rewrite map_length. apply enumerate_length.
  - apply flatten_lt. exact Hr.
  - rewrite nth_error_nth' with (d := 0) by (rewrite seq_length; exact Hi). rewrite seq_nth by exact Hi. reflexivity.
Qed.

Theorem map_indexed_spec tsh1 tsh2 mi ind2to1 p1 :
  in_range tsh1 p1 ->
  nth (flatten p1 (strides tsh1)) (map_indexed tsh1 tsh2 mi ind2to1) 0
  = flatten (p2_of mi ind2to1 p1) (strides tsh2).
Proof.
  intros H. unfold map_indexed.
  set (f := fun q => flatten (p2_of mi ind2to1 q) (strides tsh2)).
  rewrite (nth_indep (map f (enumerate tsh1)) 0 (f []))
    by (rewrite map_length, enumerate_length; apply flatten_lt; exact H).
  rewrite (map_nth f (enumerate tsh1) []). rewrite enumerate_is_row_major by exact H. reflexivity.
Qed.

Theorem map_ct_spec tsh1 tsh2 p2to1 p2 :
  in_range tsh2 p2 ->
  nth (flatten p2 (strides tsh2)) (map_ct tsh1 tsh2 p2to1) 0
  = flatten (p1_of (length tsh1) p2to1 p2) (strides tsh1).
Proof.
  intros H. unfold map_ct.
  set (f := fun q => flatten (p1_of (length tsh1) p2to1 q) (strides tsh1)).
  rewrite (nth_indep (map f (enumerate tsh2)) 0 (f []))
    by (rewrite map_length, enumerate_length; apply flatten_lt; exact H).
  rewrite (map_nth f (enumerate tsh2) []). rewrite enumerate_is_row_major by exact H. reflexivity.
Qed.

(* one entry per component of the enumerated expression *)
Theorem map_lengths tsh1 tsh2 mi ind2to1 p2to1 :
  length (map_indexed tsh1 tsh2 mi ind2to1) = prodn tsh1 /\ length (map_ct tsh1 tsh2 p2to1) = prodn tsh2.
Proof. unfold map_indexed, map_ct. rewrite !map_length, !enumerate_length. split; reflexivity. Qed.

(* ------------------------------------------------------------------ *)
(* reconstruct.handle_index_sum: the scalar components of  sum_i summand  — for every (pre, post) position around the axis of
   the summation index, the d components of the summand that differ only in that axis *)

Definition index_sum_groups (predim d postdim : nat) : list (list nat) :=
  flat_map (fun i => map (fun k => map (fun j => i * (postdim * d) + k + j * postdim) (seq 0 d)) (seq 0 postdim))
           (seq 0 predim).

Theorem index_sum_spec predim d postdim i k :
  i < predim -> k < postdim ->
  nth (i * postdim + k) (index_sum_groups predim d postdim) []
  = map (fun j => flatten [i; j; k] (strides [predim; d; postdim])) (seq 0 d).
Proof.
  intros Hi Hk. unfold index_sum_groups.
  rewrite (nth_flat_map_blocks
             (fun i => map (fun k => map (fun j => i * (postdim * d) + k + j * postdim) (seq 0 d)) (seq 0 postdim))
             postdim []) with (a := i).
  - set (g := fun k0 => map (fun j => i * (postdim * d) + k0 + j * postdim) (seq 0 d)).
    rewrite (nth_indep (map g (seq 0 postdim)) [] (g 0)) by (rewrite map_length, seq_length; exact Hk).
    rewrite (map_nth g (seq 0 postdim) 0). rewrite seq_nth by exact Hk. unfold g. simpl.
    apply map_ext. intros j. ring.
  - intros i0. rewrite map_length, seq_length. reflexivity.
  - exact Hk.
  - rewrite nth_error_nth' with (d := 0) by (rewrite seq_length; exact Hi). rewrite seq_nth by exact Hi. reflexivity.
Qed.

Theorem index_sum_groups_length predim d postdim :
  length (index_sum_groups predim d postdim) = predim * postdim.
Proof.
  unfold index_sum_groups.
  assert (G : forall l, length (flat_map (fun i => map (fun k => map (fun j => i * (postdim * d) + k + j * postdim) (seq 0 d)) (seq 0 postdim)) l)
                        = length l * postdim).
  { induction l as [|a l IH]; simpl; [reflexivity|]. rewrite app_length, map_length, seq_length, IH. reflexivity. }
  rewrite G, seq_length. reflexivity.
Qed.

(* ------------------------------------------------------------------ *)
(* reconstruct.handle_product, both operands with free indices: output component `ind` (a total multi-index over the free
   indices of the product) multiplies the component of each operand addressed by the values of ITS free indices *)

Definition pick (ind : list nat) (positions : list nat) : list nat := map (fun i => nth i ind 0) positions.

Definition product_pairs (fid fid0 fid1 : list nat) (indmap0 indmap1 : list nat) : list (nat * nat) :=
  map (fun ind => (flatten (pick ind indmap0) (strides fid0), flatten (pick ind indmap1) (strides fid1))) (enumerate fid).

Theorem product_pairs_spec fid fid0 fid1 indmap0 indmap1 ind :
  in_range fid ind ->
  nth (flatten ind (strides fid)) (product_pairs fid fid0 fid1 indmap0 indmap1) (0, 0)
  = (flatten (pick ind indmap0) (strides fid0), flatten (pick ind indmap1) (strides fid1)).
Proof.
  intros H. unfold product_pairs.
  set (f := fun q => (flatten (pick q indmap0) (strides fid0), flatten (pick q indmap1) (strides fid1))).
  rewrite (nth_indep (map f (enumerate fid)) (0, 0) (f []))
    by (rewrite map_length, enumerate_length; apply flatten_lt; exact H).
  rewrite (map_nth f (enumerate fid) []). rewrite enumerate_is_row_major by exact H. reflexivity.
Qed.

Example indexed_example :
  (* A[i, 1] for a 2 x 3 tensor A, i free over 2: components 1 and 4 *)
  map_indexed [2] [2; 3] [MIndex 0; MFixed 1] [] = [1; 4].
Proof. reflexivity. Qed.
