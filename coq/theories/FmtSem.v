(* FmtSem.v — the C reading [canon e] of the printed text has the value of e. *)
From Coq Require Import ZArith List Bool String Lia.
From FFCX Require Import LN Tok SoundExpr Accum.
From FFCXGen Require Import PrecGen.
From FFCX Require Import Fmt.
Import ListNotations.

Section Sem.
Set Default Proof Using "All".
Variable T : Type.
Variable of_Z : Z -> T.
Variable of_lit : Z -> Z -> T.
Variable of_clit : Z -> Z -> Z -> Z -> T.
Variable tadd tsub tmul tdiv : T -> T -> T.
Variable tneg : T -> T.
Variable teqb tltb tleb : T -> T -> bool.
Variable tfn : string -> list T -> T.
Hypothesis of_lit_opp : forall m e, tneg (of_lit (- m) e) = of_lit m e.

Notation eval := (@eval T of_Z of_lit of_clit tadd tsub tmul tdiv tneg teqb tltb tleb tfn).
Notation arith := (@arith T of_Z tadd tsub tmul tdiv teqb tltb tleb).
Notation fold_arith := (@fold_arith T of_Z tadd tsub tmul tdiv teqb tltb tleb).

Lemma fold_none {A} (f : A -> A -> option A) (vs : list A) :
  fold_left (fun a x => match a with Some a' => f a' x | None => None end) vs None = None.
Proof. induction vs; simpl; auto. Qed.

Lemma eval_nest inp st op :
  forall rest acc,
    eval inp st (fold_left (EBin op) rest acc) =
    match eval inp st acc, opt_map (eval inp st) rest with
    | Some v, Some vs =>
        fold_left (fun a x => match a with Some a' => arith op a' x | None => None end) vs (Some v)
    | _, _ => None
    end.
Proof.
  induction rest as [|a rest IH]; intros acc.
  - simpl. destruct (eval inp st acc); reflexivity.
  - simpl fold_left. rewrite IH. clear IH.
    change (eval inp st (EBin op acc a)) with
      (match eval inp st acc, eval inp st a with
       | Some x, Some y => arith op x y
       | _, _ => None
       end).
    change (opt_map (eval inp st) (a :: rest)) with
      (match eval inp st a with
       | Some b => match opt_map (eval inp st) rest with Some bs => Some (b :: bs) | None => None end
       | None => None
       end).
    destruct (eval inp st acc) as [v|]; [|reflexivity].
    destruct (eval inp st a) as [y|]; [|reflexivity].
    destruct (opt_map (eval inp st) rest) as [vs|].
    + simpl. destruct (arith op v y) as [r|]; [reflexivity|].
      symmetry. apply fold_none.
    + destruct (arith op v y); reflexivity.
Qed.

Theorem canon_eval inp st : forall e, eval inp st (canon e) = eval inp st e.
Proof.
  intros e. induction e using expr_ind'; simpl; try reflexivity.
  - destruct (z <? 0)%Z; simpl; [|reflexivity]. rewrite Z.opp_involutive. reflexivity.
  - destruct (m <? 0)%Z; simpl; [|reflexivity]. rewrite of_lit_opp. reflexivity.
  - assert (E : opt_map (eval inp st) (map canon idx) = opt_map (eval inp st) idx).
    { clear a. induction H as [|x l Hx Hl IH]; simpl; [reflexivity|]. rewrite Hx, IH. reflexivity. }
    rewrite E. reflexivity.
  - rewrite IHe. reflexivity.
  - rewrite IHe. reflexivity.
  - rewrite IHe1, IHe2. reflexivity.
  - (* ESum *)
    assert (E : opt_map (eval inp st) (map canon args) = opt_map (eval inp st) args).
    { induction H as [|x l Hx Hl IH]; simpl; [reflexivity|]. rewrite Hx, IH. reflexivity. }
    destruct args as [|a rest]; [reflexivity|].
    simpl map. unfold nest. rewrite eval_nest.
    inversion H as [|? ? Ha Hrest]; subst. rewrite Ha.
    simpl in E. rewrite Ha in E. simpl.
    destruct (eval inp st a) as [v|]; [|reflexivity].
    destruct (opt_map (eval inp st) (map canon rest)) as [vs|] eqn:E1;
      destruct (opt_map (eval inp st) rest) as [vs'|] eqn:E2; try discriminate; try reflexivity.
    inversion E; subst. reflexivity.
  - (* EProd *)
    assert (E : opt_map (eval inp st) (map canon args) = opt_map (eval inp st) args).
    { induction H as [|x l Hx Hl IH]; simpl; [reflexivity|]. rewrite Hx, IH. reflexivity. }
    destruct args as [|a rest]; [reflexivity|].
    simpl map. unfold nest. rewrite eval_nest.
    inversion H as [|? ? Ha Hrest]; subst. rewrite Ha.
    simpl in E. rewrite Ha in E. simpl.
    destruct (eval inp st a) as [v|]; [|reflexivity].
    destruct (opt_map (eval inp st) (map canon rest)) as [vs|] eqn:E1;
      destruct (opt_map (eval inp st) rest) as [vs'|] eqn:E2; try discriminate; try reflexivity.
    inversion E; subst. reflexivity.
  - assert (E : opt_map (eval inp st) (map canon args) = opt_map (eval inp st) args).
    { induction H as [|x l Hx Hl IH]; simpl; [reflexivity|]. rewrite Hx, IH. reflexivity. }
    rewrite E. reflexivity.
  - rewrite IHe1, IHe2, IHe3. reflexivity.
Qed.

End Sem.
