(* FmtSem.v — the C reading [canon e] of the printed text has the value of e. *)
From Coq Require Import ZArith List Bool String Lia.
From FFCX Require Import LN Tok SoundExpr Accum.
From FFCXGen Require Import PrecGen.
From FFCX Require Import Fmt.
Import ListNotations.

Section Sem.
Set Default Proof Using "All".
Variable T : Type.
Variable of_Z : Z -> T.
Variable of_lit : Z -> Z -> T.
Variable of_clit : Z -> Z -> Z -> Z -> T.
Variable tadd tsub tmul tdiv : T -> T -> T.
Variable tneg : T -> T.
Variable teqb tltb tleb : T -> T -> bool.
Variable tfn : string -> list T -> T.
Hypothesis of_lit_opp : forall m e, tneg (of_lit (- m) e) = of_lit m e.

Notation eval := (@eval T of_Z of_lit of_clit tadd tsub tmul tdiv tneg teqb tltb tleb tfn).
Notation arith := (@arith T of_Z tadd tsub tmul tdiv teqb tltb tleb).
Notation fold_arith := (@fold_arith T of_Z tadd tsub tmul tdiv teqb tltb tleb).

Lemma fold_none {A} (f : A -> A -> option A) (vs : list A) :
  fold_left (fun a x => match a with Some a' => f a' x | None => None end) vs None = None.
Proof. induction vs; simpl; auto. Qed.

Lemma eval_nest inp st op :
  forall rest acc,
    eval inp st (fold_left (EBin op) rest acc) =
    match eval inp st acc, opt_map (eval inp st) rest with
    | Some v, Some vs =>
        fold_left (fun a x => match a with Some a' => arith op a' x | None => None end) vs (Some v)
    | _, _ => None
    end.
Proof.
  induction rest as [|a rest IH]; intros acc.
  - simpl. destruct (eval inp st acc); reflexivity.
  - simpl fold_left. rewrite IH. clear IH.
    change (eval inp st (EBin op acc a)) with
      (match eval inp st acc, eval inp st a with
       | Some x, Some y => arith op x y
       | _, _ => None
       end).
    change (opt_map (eval inp st) (a :: rest)) with
      (match eval inp st a with
       | Some b => match opt_map (eval inp st) rest with Some bs => Some (b :: bs) | None => None end
       | None => None
       end).
    destruct (eval inp st acc) as [v|]; [|reflexivity].
    destruct (eval inp st a) as [y|]; [|reflexivity].
    destruct (opt_map (eval inp st) rest) as [vs|].
    + simpl. destruct (arith op v y) as [r|]; [reflexivity|].
      symmetry. apply fold_none.
    + destruct (arith op v y); reflexivity.
Qed.

(* complex literals are read through the identifier I of <complex.h>, whose value the
   expression semantics does not model: the value statement is for trees without them *)
Fixpoint no_clit (e : expr) : bool :=
  match e with
  | ELitC _ _ _ _ => false
  | ELitI _ | ELitF _ _ | ESym _ => true
  | EAcc _ idx => forallb no_clit idx
  | ENeg a | ENot a => no_clit a
  | EBin _ l r => no_clit l && no_clit r
  | ESum args | EProd args | ECall _ args => forallb no_clit args
  | ECond c t f => no_clit c && no_clit t && no_clit f
  end.

Lemma opt_map_canon inp st l :
  Forall (fun e => no_clit e = true -> eval inp st (canon e) = eval inp st e) l ->
  forallb no_clit l = true ->
  opt_map (eval inp st) (map canon l) = opt_map (eval inp st) l.
Proof.
  induction 1 as [|x l Hx Hl IH]; simpl; intros Hn; [reflexivity|].
  apply andb_true_iff in Hn. destruct Hn as [H1 H2]. rewrite (Hx H1), (IH H2). reflexivity.
Qed.

Theorem canon_eval inp st : forall e, no_clit e = true -> eval inp st (canon e) = eval inp st e.
Proof.
  intros e. induction e using expr_ind'; simpl; intros Hn; try reflexivity; try discriminate.
  - destruct (z <? 0)%Z; simpl; [|reflexivity]. rewrite Z.opp_involutive. reflexivity.
  - destruct (m <? 0)%Z; simpl; [|reflexivity]. rewrite of_lit_opp. reflexivity.
  - rewrite (opt_map_canon inp st idx H Hn). reflexivity.
  - rewrite IHe; auto.
  - rewrite IHe; auto.
  - apply andb_true_iff in Hn. destruct Hn as [H1 H2]. rewrite IHe1, IHe2; auto.
  - (* ESum *)
    pose proof (opt_map_canon inp st args H Hn) as E.
    destruct args as [|a rest]; [reflexivity|].
    simpl map. unfold nest. rewrite eval_nest.
    simpl in Hn. apply andb_true_iff in Hn. destruct Hn as [Hna Hnr].
    inversion H as [|? ? Ha Hrest]; subst. rewrite (Ha Hna).
    simpl in E. rewrite (Ha Hna) in E. simpl.
    destruct (eval inp st a) as [v|]; [|reflexivity].
    destruct (opt_map (eval inp st) (map canon rest)) as [vs|] eqn:E1;
      destruct (opt_map (eval inp st) rest) as [vs'|] eqn:E2; try discriminate; try reflexivity.
    inversion E; subst. reflexivity.
  - (* EProd *)
    pose proof (opt_map_canon inp st args H Hn) as E.
    destruct args as [|a rest]; [reflexivity|].
    simpl map. unfold nest. rewrite eval_nest.
    simpl in Hn. apply andb_true_iff in Hn. destruct Hn as [Hna Hnr].
    inversion H as [|? ? Ha Hrest]; subst. rewrite (Ha Hna).
    simpl in E. rewrite (Ha Hna) in E. simpl.
    destruct (eval inp st a) as [v|]; [|reflexivity].
    destruct (opt_map (eval inp st) (map canon rest)) as [vs|] eqn:E1;
      destruct (opt_map (eval inp st) rest) as [vs'|] eqn:E2; try discriminate; try reflexivity.
    inversion E; subst. reflexivity.
  - rewrite (opt_map_canon inp st args H Hn). reflexivity.
  - apply andb_true_iff in Hn. destruct Hn as [Hn H3]. apply andb_true_iff in Hn. destruct Hn as [H1 H2].
    rewrite IHe1, IHe2, IHe3; auto.
Qed.

End Sem.
