(* LN.v — deep embedding of FFCx's LNodes AST (ffcx/codegeneration/lnodes.py)
   and its big-step semantics, parametric in the numeric domain.

   Model only: no proofs in this file, so it still evaluates when a proof
   elsewhere breaks.

   Reading of the AST follows the *C formatter* (ffcx/codegeneration/C/formatter.py):
     - Section(decls, stmts)  ==  decls ; { stmts }      (decls outside the braces)
     - ForRange(i,b,e,body)   ==  for (int i=b; i<e; ++i) { body }
     - StatementList          ==  plain sequence (no braces)
   The exporter (harness/export.py) performs exactly this desugaring; the
   gcc bit-exact run ties it to the text that is really compiled. *)

From Coq Require Import ZArith List Bool String FMapPositive.
Import ListNotations.
Open Scope Z_scope.

Definition ident := positive.
Bind Scope positive_scope with ident.

(* Reserved identifiers: the arguments of tabulate_tensor. *)
Definition id_A : ident := 1%positive.
Definition id_w : ident := 2%positive.
Definition id_c : ident := 3%positive.
Definition id_x : ident := 4%positive.   (* coordinate_dofs *)
Definition id_e : ident := 5%positive.   (* entity_local_index *)
Definition id_p : ident := 6%positive.   (* quadrature_permutation *)
Definition id_I : ident := 7%positive.   (* the imaginary unit of <complex.h> *)

Definition is_input (x : ident) : bool :=
  (Pos.eqb x id_w || Pos.eqb x id_c || Pos.eqb x id_x || Pos.eqb x id_e || Pos.eqb x id_p)%bool.

Inductive dtype := DReal | DScalar | DInt | DBool.

Inductive binop :=
| OAdd | OSub | OMul | ODiv
| OEQ | ONE | OLT | OGT | OLE | OGE
| OAnd | OOr.

(* A float literal is the exact dyadic rational  m * 2^e  of the Python
   float (exporter: float.as_integer_ratio / frexp).  A complex literal is a pair. *)
Inductive expr :=
| ELitI (z : Z)
| ELitF (m e : Z)
| ELitC (rm re im ie : Z)
| ESym (x : ident)
| EAcc (a : ident) (idx : list expr)
| ENeg (a : expr)
| ENot (a : expr)
| EBin (op : binop) (l r : expr)
| ESum (args : list expr)
| EProd (args : list expr)
| ECall (f : string) (args : list expr)
| ECond (c t f : expr).

Inductive lval :=
| LVar (x : ident)
| LArr (a : ident) (idx : list expr).

Inductive stmt :=
| SSkip
| SVarDecl (x : ident) (ty : dtype) (e : expr)
| SArrDecl (x : ident) (ty : dtype) (shape : list Z) (vals : list expr) (ro : bool)
| SAssign (l : lval) (e : expr)
| SAssignAdd (l : lval) (e : expr)
| SFor (i : ident) (b e : Z) (body : list stmt)
| SBlock (body : list stmt)
| SList (body : list stmt).

(* sequencing of a partial state transformer over a statement list *)
Definition seq_gen {S} (f : stmt -> S -> option S) : list stmt -> S -> option S :=
  fix go (l : list stmt) (st : S) : option S :=
    match l with
    | [] => Some st
    | s :: l' => match f s st with Some st' => go l' st' | None => None end
    end.

(* ------------------------------------------------------------------ *)
(* Numeric domain *)

Section Sem.

Variable T : Type.
Variable of_Z : Z -> T.
Variable of_lit : Z -> Z -> T.                  (* m * 2^e *)
Variable of_clit : Z -> Z -> Z -> Z -> T.       (* complex literal *)
Variable tadd tsub tmul tdiv : T -> T -> T.
Variable tneg : T -> T.
Variable teqb tltb tleb : T -> T -> bool.
Variable tfn : string -> list T -> T.           (* math functions *)

Inductive val := VI (z : Z) | VF (x : T) | VB (b : bool).

Inductive cell :=
| CScalar (ty : dtype) (ro : bool) (v : val)
| CArr (ty : dtype) (ro : bool) (shape : list Z) (data : list val).

Definition store := PositiveMap.t cell.

(* read-only inputs of the kernel: a *partial* memory.  A read where the
   memory is undefined is a trap. *)
Definition inputs := ident -> Z -> option val.

Definition to_T (v : val) : option T :=
  match v with VF x => Some x | VI z => Some (of_Z z) | VB _ => None end.

Definition coerce (ty : dtype) (v : val) : option val :=
  match ty, v with
  | DInt, VI _ => Some v
  | DBool, VB _ => Some v
  | DReal, VF _ | DScalar, VF _ => Some v
  | DReal, VI z | DScalar, VI z => Some (VF (of_Z z))
  | _, _ => None
  end.

Definition arith (op : binop) (a b : val) : option val :=
  match a, b with
  | VI x, VI y =>
      match op with
      | OAdd => Some (VI (x + y)) | OSub => Some (VI (x - y)) | OMul => Some (VI (x * y))
      | ODiv => None  (* int/int: C truncates, Python does not: never generated, trap *)
      | OEQ => Some (VB (Z.eqb x y)) | ONE => Some (VB (negb (Z.eqb x y)))
      | OLT => Some (VB (Z.ltb x y)) | OGT => Some (VB (Z.ltb y x))
      | OLE => Some (VB (Z.leb x y)) | OGE => Some (VB (Z.leb y x))
      | _ => None
      end
  | VB x, VB y =>
      match op with
      | OAnd => Some (VB (andb x y)) | OOr => Some (VB (orb x y)) | _ => None
      end
  | _, _ =>
      match to_T a, to_T b with
      | Some x, Some y =>
          match op with
          | OAdd => Some (VF (tadd x y)) | OSub => Some (VF (tsub x y))
          | OMul => Some (VF (tmul x y)) | ODiv => Some (VF (tdiv x y))
          | OEQ => Some (VB (teqb x y)) | ONE => Some (VB (negb (teqb x y)))
          | OLT => Some (VB (tltb x y)) | OGT => Some (VB (tltb y x))
          | OLE => Some (VB (tleb x y)) | OGE => Some (VB (tleb y x))
          | _ => None
          end
      | _, _ => None
      end
  end.

Definition vneg (a : val) : option val :=
  match a with VI z => Some (VI (- z)) | VF x => Some (VF (tneg x)) | VB _ => None end.

Definition vnot (a : val) : option val :=
  match a with VB b => Some (VB (negb b)) | _ => None end.

(* row-major flat index with a per-dimension bounds check *)
Fixpoint flat_index (shape idx : list Z) (acc : Z) : option Z :=
  match shape, idx with
  | [], [] => Some acc
  | n :: shape', i :: idx' =>
      if (0 <=? i) && (i <? n) then flat_index shape' idx' (acc * n + i) else None
  | _, _ => None
  end.

Definition as_int (v : val) : option Z := match v with VI z => Some z | _ => None end.

Definition opt_map {A B} (f : A -> option B) : list A -> option (list B) :=
  fix go (l : list A) : option (list B) :=
    match l with
    | [] => Some []
    | a :: l' => match f a with
                 | Some b => match go l' with Some bs => Some (b :: bs) | None => None end
                 | None => None
                 end
    end.

Definition fold_arith (op : binop) (vs : list val) : option val :=
  match vs with
  | [] => None
  | v :: vs' => fold_left (fun acc x => match acc with Some a => arith op a x | None => None end)
                          vs' (Some v)
  end.

Section Eval.
Variable inp : inputs.
Variable st : store.

Fixpoint eval (e : expr) : option val :=
  match e with
  | ELitI z => Some (VI z)
  | ELitF m e => Some (VF (of_lit m e))
  | ELitC a b c d => Some (VF (of_clit a b c d))
  | ESym x =>
      match PositiveMap.find x st with
      | Some (CScalar _ _ v) => Some v
      | _ => None
      end
  | EAcc a idx =>
      match opt_map eval idx with
      | None => None
      | Some vs =>
          match opt_map as_int vs with
          | None => None
          | Some is =>
              if is_input a then
                match is with
                | [i] => inp a i
                | _ => None
                end
              else
                match PositiveMap.find a st with
                | Some (CArr _ _ shape data) =>
                    match flat_index shape is 0 with
                    | Some k => nth_error data (Z.to_nat k)
                    | None => None
                    end
                | _ => None
                end
          end
      end
  | ENeg a => match eval a with Some v => vneg v | None => None end
  | ENot a => match eval a with Some v => vnot v | None => None end
  | EBin op l r =>
      match eval l, eval r with
      | Some a, Some b => arith op a b
      | _, _ => None
      end
  | ESum args => match opt_map eval args with Some vs => fold_arith OAdd vs | None => None end
  | EProd args => match opt_map eval args with Some vs => fold_arith OMul vs | None => None end
  | ECall f args =>
      match opt_map eval args with
      | Some vs => match opt_map to_T vs with
                   | Some xs => Some (VF (tfn f xs))
                   | None => None
                   end
      | None => None
      end
  | ECond c t f =>
      match eval c with
      | Some (VB true) => eval t
      | Some (VB false) => eval f
      | _ => None
      end
  end.

Definition evals (l : list expr) : option (list val) := opt_map eval l.

End Eval.

Fixpoint set_nth {A} (n : nat) (x : A) (l : list A) : list A :=
  match n, l with
  | O, _ :: l' => x :: l'
  | S n', a :: l' => a :: set_nth n' x l'
  | _, [] => []
  end.

Definition prodZ (l : list Z) : Z := fold_right Z.mul 1 l.

Definition zero_of (ty : dtype) : val :=
  match ty with DInt => VI 0 | DBool => VB false | _ => VF (of_Z 0) end.

Fixpoint pad {A} (n : nat) (d : A) (l : list A) : list A :=
  match n with
  | O => []
  | S n' => match l with [] => d :: pad n' d [] | a :: l' => a :: pad n' d l' end
  end.

(* names declared directly in a statement sequence (same C scope) *)
Fixpoint declared (s : stmt) : list ident :=
  match s with
  | SVarDecl x _ _ => [x]
  | SArrDecl x _ _ _ _ => [x]
  | SList l => flat_map declared l
  | _ => []
  end.

Definition declared_list (l : list stmt) : list ident := flat_map declared l.

Definition remove_all (xs : list ident) (st : store) : store :=
  fold_left (fun s x => PositiveMap.remove x s) xs st.

(* read current value of an lvalue's target / write it *)
Definition write (inp : inputs) (st : store) (l : lval) (f : dtype -> val -> option val)
  : option store :=
  match l with
  | LVar x =>
      match PositiveMap.find x st with
      | Some (CScalar ty false v) =>
          match f ty v with
          | Some v' => Some (PositiveMap.add x (CScalar ty false v') st)
          | None => None
          end
      | _ => None
      end
  | LArr a idx =>
      match evals inp st idx with
      | None => None
      | Some vs =>
          match opt_map as_int vs with
          | None => None
          | Some is =>
              match PositiveMap.find a st with
              | Some (CArr ty false shape data) =>
                  match flat_index shape is 0 with
                  | Some k =>
                      match nth_error data (Z.to_nat k) with
                      | Some v =>
                          match f ty v with
                          | Some v' => Some (PositiveMap.add a
                                               (CArr ty false shape (set_nth (Z.to_nat k) v' data)) st)
                          | None => None
                          end
                      | None => None
                      end
                  | None => None
                  end
              | _ => None
              end
          end
      end
  end.

Definition fresh (x : ident) (st : store) : bool :=
  negb (is_input x) && match PositiveMap.find x st with None => true | Some _ => false end.

Section Exec.
Variable inp : inputs.

Fixpoint loop_gen (f : store -> option store) (i : ident) (dl : list ident)
         (n : nat) (k : Z) (st : store) : option store :=
  match n with
  | O => Some st
  | S n' =>
      match f (PositiveMap.add i (CScalar DInt true (VI k)) st) with
      | Some st' => loop_gen f i dl n' (k + 1) (PositiveMap.remove i (remove_all dl st'))
      | None => None
      end
  end.

Fixpoint exec (s : stmt) (st : store) : option store :=
  match s with
  | SSkip => Some st
  | SVarDecl x ty e =>
      if fresh x st then
        match eval inp st e with
        | Some v => match coerce ty v with
                    | Some v' => Some (PositiveMap.add x (CScalar ty false v') st)
                    | None => None
                    end
        | None => None
        end
      else None
  | SArrDecl x ty shape vals ro =>
      if fresh x st && forallb (fun n => 0 <? n) shape
         && (Z.of_nat (List.length vals) <=? prodZ shape) then
        match evals inp st vals with
        | Some vs =>
            match opt_map (coerce ty) vs with
            | Some vs' =>
                Some (PositiveMap.add x
                        (CArr ty ro shape (pad (Z.to_nat (prodZ shape)) (zero_of ty) vs')) st)
            | None => None
            end
        | None => None
        end
      else None
  | SAssign l e =>
      match eval inp st e with
      | Some v => write inp st l (fun ty _ => coerce ty v)
      | None => None
      end
  | SAssignAdd l e =>
      match eval inp st e with
      | Some v => write inp st l (fun ty old => match arith OAdd old v with
                                                | Some r => coerce ty r
                                                | None => None
                                                end)
      | None => None
      end
  | SFor i b e body =>
      if fresh i st then
        loop_gen (seq_gen exec body) i (declared_list body) (Z.to_nat (e - b)) b st
      else None
  | SBlock body =>
      match seq_gen exec body st with
      | Some st' => Some (remove_all (declared_list body) st')
      | None => None
      end
  | SList body => seq_gen exec body st
  end.

Definition exec_list : list stmt -> store -> option store := seq_gen exec.

Definition loop (i : ident) (body : list stmt) : nat -> Z -> store -> option store :=
  loop_gen (exec_list body) i (declared_list body).

End Exec.

(* Kernel = body + the declared size of A.  Initial store: A only. *)
Definition init_store (A0 : list val) : store :=
  PositiveMap.add id_A (CArr DScalar false [Z.of_nat (List.length A0)] A0) (PositiveMap.empty cell).

Definition get_A (st : store) : option (list val) :=
  match PositiveMap.find id_A st with
  | Some (CArr _ _ _ data) => Some data
  | _ => None
  end.

Definition run_kernel (inp : inputs) (body : list stmt) (A0 : list val) : option (list val) :=
  match exec_list inp body (init_store A0) with
  | Some st => get_A st
  | None => None
  end.

End Sem.

Arguments VI {T} z.
Arguments VF {T} x.
Arguments VB {T} b.
Arguments CScalar {T} ty ro v.
Arguments CArr {T} ty ro shape data.
Arguments as_int {T} v.
Arguments get_A {T} st.
Arguments init_store {T} A0.
Arguments remove_all {T} xs st.
Arguments fresh {T} x st.
