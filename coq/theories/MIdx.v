(* MIdx.v — lnodes.MultiIndex: the flattened index expression it builds evaluates to the row-major position.

   MultiIndex.__init__:   stride = [prod(sizes[i:]) for i in range(dim)] + [LiteralInt(1)]
                          global_index = Sum(n * sym for n, sym in zip(stride[1:], symbols))      (LiteralInt(0) if dim == 0)
   `n * sym` goes through the overloaded operators of LExpr (gen/SmartGen.v, translated from the source on every run):
   sym.__rmul__(n) for the numpy integers, LiteralInt(1).__mul__(sym) for the last one.
   [global_index] below is that construction; it is compared node by node with the real MultiIndex on generated
   sizes / symbols (harness/midxcorr.py).  The theorem: for index atoms (loop symbols, literal integers) holding
   integers, the expression evaluates (LN.eval, any numeric domain) to Flatten.strided, which Flatten.v proves to be
   the row-major position, in range and injective for in-range indices. *)

From Coq Require Import ZArith List Bool String Lia.
From FFCX Require Import LN SmartBase Flatten.
From FFCXGen Require Import SmartGen.
Import ListNotations.
Open Scope Z_scope.

Local Arguments Z.mul : simpl never.
Local Arguments Z.opp : simpl never.

Definition idx_atom (e : expr) : bool := match e with ESym _ | ELitI _ => true | _ => false end.

Fixpoint terms (sizes : list Z) (syms : list expr) : option (list expr) :=
  match sizes, syms with
  | [], [] => Some []
  | _ :: r, s :: ss =>
      match (match r with [] => mul_s (ELitI 1) s | _ => rmul_s s (ELitI (Flatten.prodZ r)) end), terms r ss with
      | Some t, Some ts => Some (t :: ts)
      | _, _ => None
      end
  | _, _ => None
  end.

Definition global_index (sizes : list Z) (syms : list expr) : option expr :=
  match sizes with
  | [] => match syms with [] => Some (ELitI 0) | _ => None end
  | _ => match terms sizes syms with Some ts => Some (ESum ts) | None => None end
  end.

Fixpoint weights (sizes vs : list Z) : list Z :=
  match sizes, vs with
  | _ :: r, v :: vr => Flatten.prodZ r * v :: weights r vr
  | _, _ => []
  end.

Lemma weights_sum : forall sizes vs, List.length sizes = List.length vs ->
  fold_right Z.add 0 (weights sizes vs) = strided sizes vs.
Proof.
  induction sizes as [|n r IH]; intros [|v vr] H; simpl in *; try discriminate; try reflexivity.
  rewrite IH by lia. ring.
Qed.

Section Sem.
Variable T : Type.
Variable of_Z : Z -> T.
Variable of_lit : Z -> Z -> T.
Variable of_clit : Z -> Z -> Z -> Z -> T.
Variable tadd tsub tmul tdiv : T -> T -> T.
Variable tneg : T -> T.
Variable teqb tltb tleb : T -> T -> bool.
Variable tfn : string -> list T -> T.
Notation eval := (@eval T of_Z of_lit of_clit tadd tsub tmul tdiv tneg teqb tltb tleb tfn).
Notation fold_arith := (@fold_arith T of_Z tadd tsub tmul tdiv teqb tltb tleb).

Ltac fin := first [ reflexivity | (f_equal; f_equal; ring) ].

Lemma rmul_term inp st s n v t :
  idx_atom s = true -> eval inp st s = Some (VI v) ->
  rmul_s s (ELitI n) = Some t -> eval inp st t = Some (VI (n * v)).
Proof.
  intros Ha Hv Ht. destruct s as [z| | |x| | | | | | | |]; try discriminate; simpl in Hv.
  - inversion Hv; subst v. unfold rmul_s, is_zero_s, is_one_s, is_negone_s, lit_test in Ht.
    destruct (Z.eqb_spec z 0); [inversion Ht; subst; simpl; fin|].
    destruct (Z.eqb_spec n 0); [inversion Ht; subst; simpl; fin|].
    destruct (Z.eqb_spec z 1); [inversion Ht; subst; simpl; fin|].
    destruct (Z.eqb_spec n 1); [inversion Ht; subst; simpl; fin|].
    destruct (Z.eqb_spec n (-1)); [inversion Ht; subst; simpl; fin|].
    destruct (Z.eqb_spec z (-1)); [inversion Ht; subst; simpl; fin|].
    inversion Ht; subst. simpl. reflexivity.
  - unfold rmul_s, is_zero_s, is_one_s, is_negone_s, lit_test in Ht.
    destruct (Z.eqb_spec n 0); [inversion Ht; subst; simpl; fin|].
    destruct (Z.eqb_spec n 1); [inversion Ht; subst; simpl; rewrite Hv; fin|].
    destruct (Z.eqb_spec n (-1)); [inversion Ht; subst; simpl; rewrite Hv; simpl; fin|].
    inversion Ht; subst. simpl. simpl in Hv. rewrite Hv. reflexivity.
Qed.

Lemma mul_one_term inp st s v t :
  idx_atom s = true -> eval inp st s = Some (VI v) ->
  mul_s (ELitI 1) s = Some t -> eval inp st t = Some (VI (1 * v)).
Proof.
  intros Ha Hv Ht. replace (1 * v) with v by lia.
  destruct s as [z| | |x| | | | | | | |]; try discriminate.
  - unfold mul_s, is_zero_s, is_one_s, is_negone_s, lit_test in Ht. simpl in Ht.
    destruct (Z.eqb_spec z 0); inversion Ht; subst; exact Hv.
  - unfold mul_s, is_zero_s, is_one_s, is_negone_s, lit_test in Ht. simpl in Ht.
    inversion Ht; subst. exact Hv.
Qed.

Lemma terms_values inp st : forall sizes syms vs ts,
  terms sizes syms = Some ts -> forallb idx_atom syms = true ->
  opt_map (eval inp st) syms = Some (map (fun v => VI v) vs) ->
  opt_map (eval inp st) ts = Some (map (fun v => VI v) (weights sizes vs)).
Proof.
  induction sizes as [|n r IH]; intros [|s ss] vs ts Ht Ha Hv; simpl in Ht; try discriminate.
  - inversion Ht; subst. destruct vs; [reflexivity | discriminate].
  - simpl in Ha. apply andb_true_iff in Ha. destruct Ha as [Has Hass].
    simpl in Hv. destruct (eval inp st s) as [v0|] eqn:Es; [|discriminate].
    destruct (opt_map (eval inp st) ss) as [vr0|] eqn:Ess; [|discriminate].
    destruct vs as [|v vr]; [discriminate|]. simpl in Hv. inversion Hv; subst v0 vr0.
    destruct (match r with [] => mul_s (ELitI 1) s | _ :: _ => rmul_s s (ELitI (Flatten.prodZ r)) end)
      as [t|] eqn:Et; [|discriminate].
    destruct (terms r ss) as [ts'|] eqn:Ets; [|discriminate]. inversion Ht; subst ts.
    simpl. rewrite (IH ss vr ts' Ets Hass Ess).
    assert (Hval : eval inp st t = Some (VI (Flatten.prodZ r * v))).
    { destruct r as [|n' r'].
      - simpl. eapply mul_one_term; eauto.
      - eapply rmul_term; eauto. }
    rewrite Hval. reflexivity.
Qed.

Lemma fold_add_ints : forall l acc,
  fold_left (fun a x => match a with Some a' => @arith T of_Z tadd tsub tmul tdiv teqb tltb tleb OAdd a' x | None => None end)
            (map (fun v => VI v) l) (Some (VI acc))
  = Some (VI (acc + fold_right Z.add 0 l)).
Proof.
  induction l as [|x l IH]; intros acc; simpl; [f_equal; f_equal; lia|].
  rewrite IH. f_equal. f_equal. lia.
Qed.

(* THE theorem: the index expression of a MultiIndex over integer-valued index atoms is the row-major position *)
Theorem global_index_value inp st sizes syms vs e :
  global_index sizes syms = Some e -> forallb idx_atom syms = true ->
  opt_map (eval inp st) syms = Some (map (fun v => VI v) vs) ->
  eval inp st e = Some (VI (strided sizes vs)).
Proof.
  intros Hg Ha Hv. unfold global_index in Hg.
  assert (Hlen : List.length syms = List.length vs).
  { clear -Hv. revert vs Hv. induction syms as [|s ss IH]; intros [|v vr] H; simpl in *; try reflexivity.
    - discriminate.
    - destruct (eval inp st s); [|discriminate]. destruct (opt_map (eval inp st) ss); discriminate.
    - destruct (eval inp st s); [|discriminate]. destruct (opt_map (eval inp st) ss) eqn:E; [|discriminate].
      inversion H; subst. f_equal. apply IH. reflexivity. }
  destruct sizes as [|n r].
  - destruct syms; [|discriminate]. inversion Hg; subst. destruct vs; [reflexivity | discriminate].
  - destruct (terms (n :: r) syms) as [ts|] eqn:Et; [|discriminate]. inversion Hg; subst e.
    assert (Hl2 : List.length (n :: r) = List.length vs).
    { rewrite <- Hlen. clear -Et. revert syms ts Et. generalize (n :: r) as sz.
      induction sz as [|a sz IH]; intros [|s ss] ts Et; simpl in *; try discriminate; try reflexivity.
      destruct (match sz with [] => mul_s (ELitI 1) s | _ :: _ => rmul_s s (ELitI (Flatten.prodZ sz)) end); [|discriminate].
      destruct (terms sz ss) eqn:E; [|discriminate]. f_equal. eapply IH; eauto. }
    simpl. rewrite (terms_values inp st (n :: r) syms vs ts Et Ha Hv).
    destruct vs as [|v vr]; [discriminate|]. simpl weights. simpl map. unfold LN.fold_arith.
    rewrite fold_add_ints. f_equal. f_equal.
    simpl in Hl2. rewrite (weights_sum r vr) by lia. ring.
Qed.

End Sem.
