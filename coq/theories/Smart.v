(* Smart.v — C17 (first half): the operator overloads of lnodes.LExpr, as translated
   from the source into gen/SmartGen.v, build trees with the same numeric value as the
   unsimplified operation, for all operands and all stores, in any numeric domain that
   is a commutative ring under of_Z (hypotheses below; IEEE corner cases such as
   0*inf, -0 and 0/0 are outside this statement and said so in DESIGN.md). *)

From Coq Require Import ZArith List Bool String Lia.
From FFCX Require Import LN SmartBase.
From FFCXGen Require Import SmartGen.
Import ListNotations.
Open Scope Z_scope.

Section Smart.
Set Default Proof Using "All".

Variable T : Type.
Variable of_Z : Z -> T.
Variable of_lit : Z -> Z -> T.
Variable of_clit : Z -> Z -> Z -> Z -> T.
Variable tadd tsub tmul tdiv : T -> T -> T.
Variable tneg : T -> T.
Variable teqb tltb tleb : T -> T -> bool.
Variable tfn : string -> list T -> T.

Notation zero := (of_Z 0).
Notation one := (of_Z 1).
Hypothesis add_0_l : forall x, tadd zero x = x.
Hypothesis add_0_r : forall x, tadd x zero = x.
Hypothesis sub_0_l : forall x, tsub zero x = tneg x.
Hypothesis sub_0_r : forall x, tsub x zero = x.
Hypothesis add_neg : forall x y, tadd x (tneg y) = tsub x y.
Hypothesis neg_add : forall x y, tadd (tneg x) y = tsub y x.
Hypothesis sub_neg : forall x y, tsub x (tneg y) = tadd x y.
Hypothesis mul_0_l : forall x, tmul zero x = zero.
Hypothesis mul_0_r : forall x, tmul x zero = zero.
Hypothesis mul_1_l : forall x, tmul one x = x.
Hypothesis mul_1_r : forall x, tmul x one = x.
Hypothesis mul_m1_l : forall x, tmul (of_Z (-1)) x = tneg x.
Hypothesis mul_m1_r : forall x, tmul x (of_Z (-1)) = tneg x.
Hypothesis div_0_l : forall x, tdiv zero x = zero.
Hypothesis of_Z_add : forall a b, of_Z (a + b) = tadd (of_Z a) (of_Z b).
Hypothesis of_Z_sub : forall a b, of_Z (a - b) = tsub (of_Z a) (of_Z b).
Hypothesis of_Z_mul : forall a b, of_Z (a * b) = tmul (of_Z a) (of_Z b).
Hypothesis of_Z_opp : forall a, of_Z (- a) = tneg (of_Z a).
Hypothesis of_lit_int : forall z, of_lit z 0 = of_Z z.
Hypothesis of_lit_opp : forall m e, of_lit (- m) e = tneg (of_lit m e).
Hypothesis of_clit_real : forall m e d, of_clit m e 0 d = of_lit m e.
Hypothesis of_clit_opp : forall a b c d, of_clit (- a) b (- c) d = tneg (of_clit a b c d).

Notation val := (@val T).
Notation eval := (@eval T of_Z of_lit of_clit tadd tsub tmul tdiv tneg teqb tltb tleb tfn).
Notation arith := (@arith T of_Z tadd tsub tmul tdiv teqb tltb tleb).
Notation vneg := (@vneg T tneg).
Notation to_T := (@to_T T of_Z).

Definition evalT inp st e : option T :=
  match eval inp st e with Some v => to_T v | None => None end.

Definition top (op : binop) : T -> T -> T :=
  match op with OAdd => tadd | OSub => tsub | OMul => tmul | _ => tdiv end.

Definition is_arith (op : binop) : bool :=
  match op with OAdd | OSub | OMul | ODiv => true | _ => false end.

Lemma arith_T op va vb v x :
  is_arith op = true -> arith op va vb = Some v -> to_T v = Some x ->
  exists xa xb, to_T va = Some xa /\ to_T vb = Some xb /\ x = top op xa xb.
Proof.
  intros Hop E Hx.
  destruct op; try discriminate Hop; destruct va as [a|a|a], vb as [b|b|b]; simpl in *;
    try discriminate; inversion E; subst; simpl in Hx; inversion Hx; subst;
    do 2 eexists; repeat split; auto.
Qed.

Lemma arith_def op va vb xa xb :
  (op = OAdd \/ op = OSub \/ op = OMul) ->
  to_T va = Some xa -> to_T vb = Some xb ->
  exists v, arith op va vb = Some v /\ to_T v = Some (top op xa xb).
Proof.
  intros Hop Ha Hb.
  destruct Hop as [-> | [-> | ->]]; destruct va as [a|a|a], vb as [b|b|b]; simpl in *;
    try discriminate; inversion Ha; inversion Hb; subst;
    eexists; split; try reflexivity; simpl; f_equal; auto.
Qed.

Lemma vneg_T v v' x : vneg v = Some v' -> to_T v' = Some x -> exists y, to_T v = Some y /\ x = tneg y.
Proof.
  destruct v as [a|a|a]; simpl; intros E H; try discriminate; inversion E; subst; simpl in H;
    inversion H; subst; eexists; split; try reflexivity; auto.
Qed.

Lemma vneg_def v y : to_T v = Some y -> exists v', vneg v = Some v' /\ to_T v' = Some (tneg y).
Proof.
  destruct v as [a|a|a]; simpl; intros H; try discriminate; inversion H; subst;
    eexists; split; try reflexivity; simpl; f_equal; auto.
Qed.

(* the literal recognisers give the value they test for *)
Lemma lit_test_val m e i x inp st :
  lit_test m e i x = true -> of_lit m e = of_Z i ->
  evalT inp st x = Some (of_Z i).
Proof.
  unfold evalT. destruct x; simpl; try discriminate; intros H Hl.
  - apply Z.eqb_eq in H. subst. reflexivity.
  - apply andb_true_iff in H. destruct H as [H1 H2].
    apply Z.eqb_eq in H1. apply Z.eqb_eq in H2. subst. rewrite Hl. reflexivity.
  - apply andb_true_iff in H. destruct H as [H H3]. apply andb_true_iff in H. destruct H as [H1 H2].
    apply Z.eqb_eq in H1. apply Z.eqb_eq in H2. apply Z.eqb_eq in H3. subst.
    rewrite of_clit_real, Hl. reflexivity.
Qed.

Lemma zero_val x inp st : is_zero_s x = true -> evalT inp st x = Some zero.
Proof. intros H. apply (lit_test_val _ _ _ _ _ _ H). apply of_lit_int. Qed.
Lemma one_val x inp st : is_one_s x = true -> evalT inp st x = Some one.
Proof. intros H. apply (lit_test_val _ _ _ _ _ _ H). apply of_lit_int. Qed.
Lemma negone_val x inp st : is_negone_s x = true -> evalT inp st x = Some (of_Z (-1)).
Proof. intros H. apply (lit_test_val _ _ _ _ _ _ H). apply of_lit_int. Qed.

(* inversion of a successful binary evaluation *)
Lemma eval_bin_inv inp st op a b v x :
  is_arith op = true ->
  eval inp st (EBin op a b) = Some v -> to_T v = Some x ->
  exists va vb xa xb,
    eval inp st a = Some va /\ eval inp st b = Some vb /\
    to_T va = Some xa /\ to_T vb = Some xb /\ x = top op xa xb.
Proof.
  intros Hop E Hx. simpl in E.
  destruct (eval inp st a) as [va|] eqn:Ea; [|discriminate].
  destruct (eval inp st b) as [vb|] eqn:Eb; [|discriminate].
  destruct (arith_T op va vb v x Hop E Hx) as [xa [xb [H1 [H2 H3]]]].
  exists va, vb, xa, xb. auto.
Qed.

Lemma evalT_of inp st e v x : eval inp st e = Some v -> to_T v = Some x -> evalT inp st e = Some x.
Proof. unfold evalT. intros -> H. exact H. Qed.

Lemma evalT_bin inp st op a b va vb xa xb :
  (op = OAdd \/ op = OSub \/ op = OMul) ->
  eval inp st a = Some va -> eval inp st b = Some vb -> to_T va = Some xa -> to_T vb = Some xb ->
  evalT inp st (EBin op a b) = Some (top op xa xb).
Proof.
  intros Hop Ea Eb Ha Hb. unfold evalT. simpl. rewrite Ea, Eb.
  destruct (arith_def op va vb xa xb Hop Ha Hb) as [v [E H]]. rewrite E. exact H.
Qed.

Lemma evalT_neg inp st a va xa :
  eval inp st a = Some va -> to_T va = Some xa -> evalT inp st (ENeg a) = Some (tneg xa).
Proof.
  intros Ea Ha. unfold evalT. simpl. rewrite Ea.
  destruct (vneg_def va xa Ha) as [v' [E H]]. rewrite E. exact H.
Qed.

Lemma isa_Neg_inv x : isa_Neg x = true -> exists a, x = ENeg a.
Proof. destruct x; simpl; try discriminate. eauto. Qed.

Lemma eval_neg_inv inp st a v x :
  eval inp st (ENeg a) = Some v -> to_T v = Some x ->
  exists va xa, eval inp st a = Some va /\ to_T va = Some xa /\ x = tneg xa.
Proof.
  simpl. destruct (eval inp st a) as [va|] eqn:Ea; [|discriminate]. intros E H.
  destruct (vneg_T va v x E H) as [y [Hy ->]]. eauto.
Qed.

Lemma evalT_some_eq inp st e va xa x :
  eval inp st e = Some va -> to_T va = Some xa -> evalT inp st e = Some x -> xa = x.
Proof. unfold evalT. intros -> H1 H2. congruence. Qed.

(* ---- __neg__ ---- *)
Theorem neg_s_sound a r inp st v x :
  neg_s a = Some r -> eval inp st (ENeg a) = Some v -> to_T v = Some x ->
  evalT inp st r = Some x.
Proof.
  unfold neg_s. intros Hr E Hx.
  destruct (eval_neg_inv _ _ _ _ _ E Hx) as [va [xa [Ea [Ha ->]]]].
  destruct (isa_LiteralFloat a) eqn:H1.
  - inversion Hr; subst. destruct a; simpl in H1; try discriminate; simpl in Ea;
      inversion Ea; subst; simpl in Ha; inversion Ha; subst; unfold evalT; simpl; f_equal.
    + apply of_lit_opp.
    + apply of_clit_opp.
  - destruct (isa_LiteralInt a) eqn:H2.
    + inversion Hr; subst. destruct a; simpl in H2; try discriminate. simpl in Ea.
      inversion Ea; subst. simpl in Ha. inversion Ha; subst. unfold evalT. simpl. f_equal. apply of_Z_opp.
    + inversion Hr; subst. eapply evalT_neg; eauto.
Qed.

Lemma neg_s_total a : exists r, neg_s a = Some r.
Proof. unfold neg_s. destruct (isa_LiteralFloat a), (isa_LiteralInt a); eauto. Qed.

(* -x through neg_s, given that x evaluates *)
Lemma neg_s_val a r inp st va xa :
  neg_s a = Some r -> eval inp st a = Some va -> to_T va = Some xa ->
  evalT inp st r = Some (tneg xa).
Proof.
  intros Hr Ea Ha.
  destruct (vneg_def va xa Ha) as [v' [E H]].
  apply (neg_s_sound a r inp st v' (tneg xa) Hr); [simpl; rewrite Ea; exact E | exact H].
Qed.

Ltac inv_bin op E Hx :=
  let va := fresh "va" in let vb := fresh "vb" in let xa := fresh "xa" in let xb := fresh "xb" in
  let Ea := fresh "Ea" in let Eb := fresh "Eb" in let Ha := fresh "Ha" in let Hb := fresh "Hb" in
  destruct (eval_bin_inv _ _ op _ _ _ _ eq_refl E Hx) as [va [vb [xa [xb [Ea [Eb [Ha [Hb ->]]]]]]]].

(* ---- __add__ : self + other ---- *)
Theorem add_s_sound a b r inp st v x :
  add_s a b = Some r -> eval inp st (EBin OAdd a b) = Some v -> to_T v = Some x ->
  evalT inp st r = Some x.
Proof.
  unfold add_s. intros Hr E Hx. inv_bin OAdd E Hx. simpl top.
  destruct (is_zero_s a) eqn:Z1.
  { inversion Hr; subst. rewrite (evalT_some_eq _ _ _ _ _ _ Ea Ha (zero_val a inp st Z1)).
    rewrite add_0_l. eapply evalT_of; eauto. }
  destruct (is_zero_s b) eqn:Z2.
  { inversion Hr; subst. rewrite (evalT_some_eq _ _ _ _ _ _ Eb Hb (zero_val b inp st Z2)).
    rewrite add_0_r. eapply evalT_of; eauto. }
  destruct (isa_Neg b) eqn:N.
  { inversion Hr; subst. destruct (isa_Neg_inv b N) as [b' ->]. simpl arg_of.
    destruct (eval_neg_inv _ _ _ _ _ Eb Hb) as [vb' [xb' [Eb' [Hb' ->]]]].
    rewrite add_neg. apply (evalT_bin inp st OSub a b' va vb' xa xb'); auto. }
  inversion Hr; subst. apply (evalT_bin inp st OAdd a b va vb xa xb); auto.
Qed.

(* ---- __radd__ : other + self ---- *)
Theorem radd_s_sound a b r inp st v x :
  radd_s a b = Some r -> eval inp st (EBin OAdd b a) = Some v -> to_T v = Some x ->
  evalT inp st r = Some x.
Proof.
  unfold radd_s. intros Hr E Hx. inv_bin OAdd E Hx. simpl top.
  destruct (is_zero_s a) eqn:Z1.
  { inversion Hr; subst. rewrite (evalT_some_eq _ _ _ _ _ _ Eb Hb (zero_val a inp st Z1)).
    rewrite add_0_r. eapply evalT_of; eauto. }
  destruct (is_zero_s b) eqn:Z2.
  { inversion Hr; subst. rewrite (evalT_some_eq _ _ _ _ _ _ Ea Ha (zero_val b inp st Z2)).
    rewrite add_0_l. eapply evalT_of; eauto. }
  destruct (isa_Neg a) eqn:N.
  { inversion Hr; subst. destruct (isa_Neg_inv a N) as [a' ->]. simpl arg_of.
    destruct (eval_neg_inv _ _ _ _ _ Eb Hb) as [va' [xa' [Ea' [Ha' ->]]]].
    rewrite add_neg. apply (evalT_bin inp st OSub b a' va va' xa xa'); auto. }
  inversion Hr; subst. apply (evalT_bin inp st OAdd b a va vb xa xb); auto.
Qed.

Lemma isa_LiteralInt_inv x : isa_LiteralInt x = true -> exists z, x = ELitI z.
Proof. destruct x; simpl; try discriminate. eauto. Qed.

(* ---- __sub__ : self - other ---- *)
Theorem sub_s_sound a b r inp st v x :
  sub_s a b = Some r -> eval inp st (EBin OSub a b) = Some v -> to_T v = Some x ->
  evalT inp st r = Some x.
Proof.
  unfold sub_s. intros Hr E Hx. inv_bin OSub E Hx. simpl top.
  destruct (is_zero_s a) eqn:Z1.
  { rewrite (evalT_some_eq _ _ _ _ _ _ Ea Ha (zero_val a inp st Z1)). rewrite sub_0_l.
    eapply neg_s_val; eauto. }
  destruct (is_zero_s b) eqn:Z2.
  { inversion Hr; subst. rewrite (evalT_some_eq _ _ _ _ _ _ Eb Hb (zero_val b inp st Z2)).
    rewrite sub_0_r. eapply evalT_of; eauto. }
  destruct (isa_Neg b) eqn:N.
  { inversion Hr; subst. destruct (isa_Neg_inv b N) as [b' ->]. simpl arg_of.
    destruct (eval_neg_inv _ _ _ _ _ Eb Hb) as [vb' [xb' [Eb' [Hb' ->]]]].
    rewrite sub_neg. apply (evalT_bin inp st OAdd a b' va vb' xa xb'); auto. }
  destruct (isa_LiteralInt a && isa_LiteralInt b) eqn:I.
  { inversion Hr; subst. apply andb_true_iff in I. destruct I as [I1 I2].
    destruct (isa_LiteralInt_inv a I1) as [p ->]. destruct (isa_LiteralInt_inv b I2) as [q ->].
    simpl in Ea, Eb. inversion Ea; inversion Eb; subst. simpl in Ha, Hb. inversion Ha; inversion Hb; subst.
    unfold evalT. simpl. f_equal. apply of_Z_sub. }
  inversion Hr; subst. apply (evalT_bin inp st OSub a b va vb xa xb); auto.
Qed.

(* ---- __rsub__ : other - self ---- *)
Theorem rsub_s_sound a b r inp st v x :
  rsub_s a b = Some r -> eval inp st (EBin OSub b a) = Some v -> to_T v = Some x ->
  evalT inp st r = Some x.
Proof.
  unfold rsub_s. intros Hr E Hx. inv_bin OSub E Hx. simpl top.
  destruct (is_zero_s a) eqn:Z1.
  { inversion Hr; subst. rewrite (evalT_some_eq _ _ _ _ _ _ Eb Hb (zero_val a inp st Z1)).
    rewrite sub_0_r. eapply evalT_of; eauto. }
  destruct (is_zero_s b) eqn:Z2.
  { rewrite (evalT_some_eq _ _ _ _ _ _ Ea Ha (zero_val b inp st Z2)). rewrite sub_0_l.
    eapply neg_s_val; eauto. }
  destruct (isa_Neg a) eqn:N.
  { inversion Hr; subst. destruct (isa_Neg_inv a N) as [a' ->]. simpl arg_of.
    destruct (eval_neg_inv _ _ _ _ _ Eb Hb) as [va' [xa' [Ea' [Ha' ->]]]].
    rewrite sub_neg. apply (evalT_bin inp st OAdd b a' va va' xa xa'); auto. }
  inversion Hr; subst. apply (evalT_bin inp st OSub b a va vb xa xb); auto.
Qed.

(* ---- __mul__ : self * other ---- *)
Theorem mul_s_sound a b r inp st v x :
  mul_s a b = Some r -> eval inp st (EBin OMul a b) = Some v -> to_T v = Some x ->
  evalT inp st r = Some x.
Proof.
  unfold mul_s. intros Hr E Hx. inv_bin OMul E Hx. simpl top.
  destruct (is_zero_s a) eqn:Z1.
  { inversion Hr; subst. rewrite (evalT_some_eq _ _ _ _ _ _ Ea Ha (zero_val r inp st Z1)).
    rewrite mul_0_l. apply zero_val. exact Z1. }
  destruct (is_zero_s b) eqn:Z2.
  { inversion Hr; subst. rewrite (evalT_some_eq _ _ _ _ _ _ Eb Hb (zero_val r inp st Z2)).
    rewrite mul_0_r. apply zero_val. exact Z2. }
  destruct (is_one_s a) eqn:O1.
  { inversion Hr; subst. rewrite (evalT_some_eq _ _ _ _ _ _ Ea Ha (one_val a inp st O1)).
    rewrite mul_1_l. eapply evalT_of; eauto. }
  destruct (is_one_s b) eqn:O2.
  { inversion Hr; subst. rewrite (evalT_some_eq _ _ _ _ _ _ Eb Hb (one_val b inp st O2)).
    rewrite mul_1_r. eapply evalT_of; eauto. }
  destruct (is_negone_s b) eqn:M2.
  { inversion Hr; subst. rewrite (evalT_some_eq _ _ _ _ _ _ Eb Hb (negone_val b inp st M2)).
    rewrite mul_m1_r. eapply evalT_neg; eauto. }
  destruct (is_negone_s a) eqn:M1.
  { inversion Hr; subst. rewrite (evalT_some_eq _ _ _ _ _ _ Ea Ha (negone_val a inp st M1)).
    rewrite mul_m1_l. eapply evalT_neg; eauto. }
  destruct (isa_LiteralInt a && isa_LiteralInt b) eqn:I.
  { inversion Hr; subst. apply andb_true_iff in I. destruct I as [I1 I2].
    destruct (isa_LiteralInt_inv a I1) as [p ->]. destruct (isa_LiteralInt_inv b I2) as [q ->].
    simpl in Ea, Eb. inversion Ea; inversion Eb; subst. simpl in Ha, Hb. inversion Ha; inversion Hb; subst.
    unfold evalT. simpl. f_equal. apply of_Z_mul. }
  inversion Hr; subst. apply (evalT_bin inp st OMul a b va vb xa xb); auto.
Qed.

(* ---- __rmul__ : other * self ---- *)
Theorem rmul_s_sound a b r inp st v x :
  rmul_s a b = Some r -> eval inp st (EBin OMul b a) = Some v -> to_T v = Some x ->
  evalT inp st r = Some x.
Proof.
  unfold rmul_s. intros Hr E Hx. inv_bin OMul E Hx. simpl top.
  destruct (is_zero_s a) eqn:Z1.
  { inversion Hr; subst. rewrite (evalT_some_eq _ _ _ _ _ _ Eb Hb (zero_val r inp st Z1)).
    rewrite mul_0_r. apply zero_val. exact Z1. }
  destruct (is_zero_s b) eqn:Z2.
  { inversion Hr; subst. rewrite (evalT_some_eq _ _ _ _ _ _ Ea Ha (zero_val r inp st Z2)).
    rewrite mul_0_l. apply zero_val. exact Z2. }
  destruct (is_one_s a) eqn:O1.
  { inversion Hr; subst. rewrite (evalT_some_eq _ _ _ _ _ _ Eb Hb (one_val a inp st O1)).
    rewrite mul_1_r. eapply evalT_of; eauto. }
  destruct (is_one_s b) eqn:O2.
  { inversion Hr; subst. rewrite (evalT_some_eq _ _ _ _ _ _ Ea Ha (one_val b inp st O2)).
    rewrite mul_1_l. eapply evalT_of; eauto. }
  destruct (is_negone_s b) eqn:M2.
  { inversion Hr; subst. rewrite (evalT_some_eq _ _ _ _ _ _ Ea Ha (negone_val b inp st M2)).
    rewrite mul_m1_l. eapply evalT_neg; eauto. }
  destruct (is_negone_s a) eqn:M1.
  { inversion Hr; subst. rewrite (evalT_some_eq _ _ _ _ _ _ Eb Hb (negone_val a inp st M1)).
    rewrite mul_m1_r. eapply evalT_neg; eauto. }
  inversion Hr; subst. apply (evalT_bin inp st OMul b a va vb xa xb); auto.
Qed.

(* ---- __div__ : self / other, __rdiv__ : other / self ---- *)
Theorem div_s_sound a b r inp st v x :
  div_s a b = Some r -> eval inp st (EBin ODiv a b) = Some v -> to_T v = Some x ->
  evalT inp st r = Some x.
Proof.
  unfold div_s. intros Hr E Hx.
  destruct (is_zero_s b) eqn:Z2; [discriminate|].
  destruct (is_zero_s a) eqn:Z1.
  { inversion Hr; subst. inv_bin ODiv E Hx. simpl top.
    rewrite (evalT_some_eq _ _ _ _ _ _ Ea Ha (zero_val r inp st Z1)).
    rewrite div_0_l. apply zero_val. exact Z1. }
  inversion Hr; subst. unfold evalT. rewrite E. exact Hx.
Qed.

Theorem rdiv_s_sound a b r inp st v x :
  rdiv_s a b = Some r -> eval inp st (EBin ODiv b a) = Some v -> to_T v = Some x ->
  evalT inp st r = Some x.
Proof.
  unfold rdiv_s. intros Hr E Hx.
  destruct (is_zero_s a) eqn:Z1; [discriminate|].
  destruct (is_zero_s b) eqn:Z2.
  { inversion Hr; subst. inv_bin ODiv E Hx. simpl top.
    rewrite (evalT_some_eq _ _ _ _ _ _ Ea Ha (zero_val r inp st Z2)).
    rewrite div_0_l. apply zero_val. exact Z2. }
  inversion Hr; subst. unfold evalT. rewrite E. exact Hx.
Qed.

(* a division by a literal zero is rejected by both, never folded *)
Theorem div_s_rejects_zero a b : is_zero_s b = true -> div_s a b = None.
Proof. unfold div_s. intros ->. reflexivity. Qed.

(* ---- float_product ---- *)

Definition prodT (xs : list T) : T := fold_left tmul (tl xs) (hd zero xs).

Lemma fold_arith_T : forall vs v0 x0 v x,
  to_T v0 = Some x0 ->
  fold_left (fun acc y => match acc with Some a => arith OMul a y | None => None end) vs (Some v0) = Some v ->
  to_T v = Some x ->
  exists xs, Forall2 (fun v x => to_T v = Some x) vs xs /\ x = fold_left tmul xs x0.
Proof.
  induction vs as [|y vs IH]; intros v0 x0 v x H0 E Hx; simpl in E.
  - inversion E; subst. exists []. split; [constructor|]. simpl. congruence.
  - destruct (arith OMul v0 y) as [w|] eqn:Ew.
    + (* the partial product is numeric because the final one is *)
      assert (Hw : exists xw, to_T w = Some xw).
      { destruct v0 as [a|a|a], y as [b|b|b]; simpl in Ew; try discriminate; inversion Ew; subst;
          simpl; eauto. }
      destruct Hw as [xw Hw].
      destruct (arith_T OMul v0 y w xw eq_refl Ew Hw) as [xa [xb [Ha [Hb ->]]]].
      destruct (IH w _ v x Hw E Hx) as [xs [HF ->]].
      exists (xb :: xs). split; [constructor; assumption|]. simpl. congruence.
    + exfalso. clear -E. induction vs; simpl in E; [discriminate | auto].
Qed.

Lemma fold_arith_def : forall vs xs v0 x0,
  to_T v0 = Some x0 -> Forall2 (fun v x => to_T v = Some x) vs xs ->
  exists v, fold_left (fun acc y => match acc with Some a => arith OMul a y | None => None end) vs (Some v0) = Some v
            /\ to_T v = Some (fold_left tmul xs x0).
Proof.
  induction vs as [|y vs IH]; intros xs v0 x0 H0 HF; inversion HF; subst; simpl.
  - eauto.
  - destruct (arith_def OMul v0 y x0 y0 (or_intror (or_intror eq_refl)) H0 H2) as [w [Ew Hw]].
    rewrite Ew. apply IH; assumption.
Qed.

Lemma evals_T inp st : forall fs vs,
  opt_map (eval inp st) fs = Some vs ->
  forall xs, Forall2 (fun v x => to_T v = Some x) vs xs ->
  Forall2 (fun f x => evalT inp st f = Some x) fs xs.
Proof.
  induction fs as [|f fs IH]; intros vs E xs HF; simpl in E.
  - inversion E; subst. inversion HF; subst. constructor.
  - destruct (eval inp st f) as [v|] eqn:Ef; [|discriminate].
    destruct (opt_map (eval inp st) fs) as [vs'|] eqn:Er; [|discriminate].
    inversion E; subst. inversion HF; subst. constructor; [|eapply IH; eauto].
    unfold evalT. rewrite Ef. assumption.
Qed.

Lemma eprod_inv inp st fs v x :
  eval inp st (EProd fs) = Some v -> to_T v = Some x ->
  exists xs, Forall2 (fun f x => evalT inp st f = Some x) fs xs /\ fs <> [] /\ x = prodT xs.
Proof.
  simpl. destruct (opt_map (eval inp st) fs) as [vs|] eqn:E; [|discriminate].
  destruct vs as [|v0 vs]; [discriminate|]. simpl. intros Ef Hx.
  assert (H0 : exists x0, to_T v0 = Some x0).
  { destruct vs as [|y vs']; simpl in Ef.
    - inversion Ef; subst. eauto.
    - destruct v0 as [a|a|a]; simpl; eauto. exfalso.
      destruct y; simpl in Ef; clear -Ef; induction vs'; simpl in Ef; try discriminate; auto. }
  destruct H0 as [x0 H0].
  destruct (fold_arith_T vs v0 x0 v x H0 Ef Hx) as [xs [HF ->]].
  exists (x0 :: xs). split; [|split].
  - eapply evals_T; [exact E|]. constructor; assumption.
  - destruct fs; [discriminate | discriminate].
  - reflexivity.
Qed.

Lemma evalT_inv inp st f x : evalT inp st f = Some x -> exists v, eval inp st f = Some v /\ to_T v = Some x.
Proof. unfold evalT. destruct (eval inp st f) as [v|]; [eauto | discriminate]. Qed.

Lemma eprod_def inp st : forall fs xs,
  Forall2 (fun f x => evalT inp st f = Some x) fs xs -> fs <> [] ->
  evalT inp st (EProd fs) = Some (prodT xs).
Proof.
  intros fs xs HF Hne. destruct HF as [|f x0 fs xs Hf HF]; [congruence|].
  assert (Hall : exists vs, opt_map (eval inp st) fs = Some vs /\ Forall2 (fun v x => to_T v = Some x) vs xs).
  { clear Hf Hne. induction HF as [|g y fs xs Hg HF [vs [E HF2]]].
    - exists []. split; [reflexivity | constructor].
    - destruct (evalT_inv _ _ _ _ Hg) as [v [Ev Hv]]. exists (v :: vs). simpl. rewrite Ev, E.
      split; [reflexivity | constructor; assumption]. }
  destruct Hall as [vs [E HF2]].
  destruct (evalT_inv _ _ _ _ Hf) as [v0 [Ev0 Hv0]].
  unfold evalT. simpl. rewrite Ev0, E. simpl.
  destruct (fold_arith_def vs xs v0 x0 Hv0 HF2) as [v [Ev Hv]]. rewrite Ev. exact Hv.
Qed.

(* dropping factors whose value is one does not change a left-nested product *)
Lemma drop_ones inp st :
  forall fs xs acc,
    Forall2 (fun f x => evalT inp st f = Some x) fs xs ->
    exists ys,
      Forall2 (fun f x => evalT inp st f = Some x) (filter (fun f => negb (is_one_s f)) fs) ys /\
      fold_left tmul ys acc = fold_left tmul xs acc.
Proof.
  induction fs as [|f fs IH]; intros xs acc HF; inversion HF; subst; simpl.
  - exists []. split; [constructor | reflexivity].
  - destruct (is_one_s f) eqn:O; simpl.
    + assert (y = one).
      { pose proof (one_val f inp st O) as Hone. congruence. }
      subst. rewrite mul_1_r. apply IH. assumption.
    + destruct (IH l' (tmul acc y) H3) as [ys [HF' E]].
      exists (y :: ys). split; [constructor; assumption | exact E].
Qed.

Theorem float_product_s_sound fs inp st v x :
  eval inp st (EProd fs) = Some v -> to_T v = Some x ->
  evalT inp st (float_product_s fs) = Some x.
Proof.
  intros E Hx. destruct (eprod_inv inp st fs v x E Hx) as [xs [HF [Hne ->]]].
  unfold float_product_s.
  (* peel the head so that the accumulator is a value *)
  destruct HF as [|f x0 fs xs Hf HF]; [congruence|]. unfold prodT. simpl hd. simpl tl.
  simpl filter. destruct (is_one_s f) eqn:O; simpl.
  - assert (x0 = one) by (pose proof (one_val f inp st O); congruence). subst.
    destruct (drop_ones inp st fs xs one HF) as [ys [HF' E']]. rewrite <- E'.
    destruct (filter (fun f0 => negb (is_one_s f0)) fs) as [|g gs] eqn:Fl.
    + inversion HF'; subst. simpl. unfold evalT. simpl. rewrite of_lit_int. reflexivity.
    + inversion HF' as [|? y ? ys' Hg HFg]; subst. simpl. rewrite mul_1_l.
      destruct gs as [|g2 gs].
      * inversion HFg; subst. simpl. exact Hg.
      * apply (eprod_def inp st (g :: g2 :: gs) (y :: ys')); [constructor; assumption | discriminate].
  - destruct (drop_ones inp st fs xs x0 HF) as [ys [HF' E']]. rewrite <- E'.
    destruct (filter (fun f0 => negb (is_one_s f0)) fs) as [|g gs] eqn:Fl.
    + inversion HF'; subst. simpl. exact Hf.
    + apply (eprod_def inp st (f :: g :: gs) (x0 :: ys)); [constructor; assumption | discriminate].
Qed.

End Smart.
