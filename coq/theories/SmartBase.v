(* SmartBase.v — the recognisers and projections the translated overloads
   (gen/SmartGen.v) are written with.  Model only. *)
From Coq Require Import ZArith List Bool.
From FFCX Require Import LN.
Import ListNotations.
Open Scope Z_scope.

(* lexpr.value == c  for a LiteralFloat (real or complex payload) / LiteralInt *)
Definition lit_test (m e i : Z) (x : expr) : bool :=
  match x with
  | ELitF m' e' => Z.eqb m' m && Z.eqb e' e
  | ELitC m' e' im _ => Z.eqb m' m && Z.eqb e' e && Z.eqb im 0
  | ELitI z => Z.eqb z i
  | _ => false
  end.

Definition isa_Neg (x : expr) : bool := match x with ENeg _ => true | _ => false end.
Definition isa_LiteralInt (x : expr) : bool := match x with ELitI _ => true | _ => false end.
Definition isa_LiteralFloat (x : expr) : bool :=
  match x with ELitF _ _ | ELitC _ _ _ _ => true | _ => false end.

Definition arg_of (x : expr) : expr := match x with ENeg a => a | _ => x end.
Definition ival (x : expr) : Z := match x with ELitI z => z | _ => 0 end.

(* LiteralFloat(-self.value) *)
Definition flit_neg (x : expr) : expr :=
  match x with
  | ELitF m e => ELitF (- m) e
  | ELitC m e im ie => ELitC (- m) e (- im) ie
  | _ => x
  end.
