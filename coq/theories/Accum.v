(* Accum.v — C07: a kernel that never reads A and writes it only through
   "A[..] += e" computes  A <- A0 (+) T(inputs)  where T(inputs) is what the
   same kernel adds to a zero tensor: the result is independent of the previous
   contents of A.  Stated over any numeric domain whose addition is associative
   with right identity (exact arithmetic; in IEEE arithmetic A0 influences the
   rounding of the running sums — said in DESIGN.md). *)

From Coq Require Import ZArith List Bool String FMapPositive Lia.
From FFCX Require Import LN Check SoundExpr SoundStmt.
Import ListNotations.
Open Scope Z_scope.

(* ---------- the syntactic predicate (model; evaluated by vm_compute) ---------- *)

Fixpoint expr_no (x : ident) (e : expr) : bool :=
  match e with
  | ELitI _ | ELitF _ _ | ELitC _ _ _ _ => true
  | ESym y => negb (Pos.eqb y x)
  | EAcc a idx => negb (Pos.eqb a x) && forallb (expr_no x) idx
  | ENeg a | ENot a => expr_no x a
  | EBin _ l r => expr_no x l && expr_no x r
  | ESum args | EProd args | ECall _ args => forallb (expr_no x) args
  | ECond c t f => expr_no x c && expr_no x t && expr_no x f
  end.

Definition lval_idx_no (x : ident) (l : lval) : bool :=
  match l with LVar _ => true | LArr _ idx => forallb (expr_no x) idx end.

Definition lval_target (l : lval) : ident := match l with LVar y => y | LArr a _ => a end.

Fixpoint accum_only (s : stmt) : bool :=
  match s with
  | SSkip => true
  | SVarDecl x _ e => negb (Pos.eqb x id_A) && expr_no id_A e
  | SArrDecl x _ _ vals _ => negb (Pos.eqb x id_A) && forallb (expr_no id_A) vals
  | SAssign l e => negb (Pos.eqb (lval_target l) id_A) && lval_idx_no id_A l && expr_no id_A e
  | SAssignAdd l e => lval_idx_no id_A l && expr_no id_A e
  | SFor i _ _ body => negb (Pos.eqb i id_A) && forallb accum_only body
  | SBlock body | SList body => forallb accum_only body
  end.

Definition accum_only_list (l : list stmt) : bool := forallb accum_only l.

(* ---------- soundness ---------- *)

Section Accum.
Set Default Proof Using "All".
Local Opaque Pos.eqb id_A.

Variable T : Type.
Variable of_Z : Z -> T.
Variable of_lit : Z -> Z -> T.
Variable of_clit : Z -> Z -> Z -> Z -> T.
Variable tadd tsub tmul tdiv : T -> T -> T.
Variable tneg : T -> T.
Variable teqb tltb tleb : T -> T -> bool.
Variable tfn : string -> list T -> T.

Hypothesis tadd_assoc : forall a b c, tadd (tadd a b) c = tadd a (tadd b c).
Hypothesis tadd_0_r : forall a, tadd a (of_Z 0) = a.

Notation val := (@val T).
Notation cell := (@cell T).
Notation store := (@store T).
Notation inputs := (@inputs T).
Notation eval := (@eval T of_Z of_lit of_clit tadd tsub tmul tdiv tneg teqb tltb tleb tfn).
Notation evals := (@evals T of_Z of_lit of_clit tadd tsub tmul tdiv tneg teqb tltb tleb tfn).
Notation exec := (@exec T of_Z of_lit of_clit tadd tsub tmul tdiv tneg teqb tltb tleb tfn).
Notation exec_list := (@exec_list T of_Z of_lit of_clit tadd tsub tmul tdiv tneg teqb tltb tleb tfn).
Notation write := (@write T of_Z of_lit of_clit tadd tsub tmul tdiv tneg teqb tltb tleb tfn).
Notation run_kernel := (@run_kernel T of_Z of_lit of_clit tadd tsub tmul tdiv tneg teqb tltb tleb tfn).
Notation arith := (@arith T of_Z tadd tsub tmul tdiv teqb tltb tleb).
Notation coerce := (@coerce T of_Z).
Notation to_T := (@to_T T of_Z).

(* d1 = A0 (+) d2, pointwise *)
Inductive rel3 : list T -> list val -> list val -> Prop :=
| rel3_nil : rel3 [] [] []
| rel3_cons a t A0 d1 d2 :
    rel3 A0 d1 d2 -> rel3 (a :: A0) (VF (tadd a t) :: d1) (VF t :: d2).

Definition RA (A0 : list T) (st1 st2 : store) : Prop :=
  exists ty ro sh d1 d2,
    PositiveMap.find id_A st1 = Some (CArr ty ro sh d1) /\
    PositiveMap.find id_A st2 = Some (CArr ty ro sh d2) /\
    is_fl_ty ty = true /\ rel3 A0 d1 d2.

Definition R (A0 : list T) (st1 st2 : store) : Prop :=
  (forall x, x <> id_A -> PositiveMap.find x st1 = PositiveMap.find x st2) /\ RA A0 st1 st2.

Lemma opt_map_ext {A B} (f g : A -> option B) l :
  Forall (fun a => f a = g a) l -> opt_map f l = opt_map g l.
Proof. induction 1 as [|a l Ha Hl IH]; simpl; [reflexivity|]. rewrite Ha, IH. reflexivity. Qed.

Lemma eval_agree inp st1 st2 :
  (forall x, x <> id_A -> PositiveMap.find x st1 = PositiveMap.find x st2) ->
  forall e, expr_no id_A e = true -> eval inp st1 e = eval inp st2 e.
Proof.
  intros Hag e. induction e using expr_ind'; intros Hno; simpl in *; try reflexivity.
  - apply negb_true_iff, Pos.eqb_neq in Hno. rewrite (Hag x Hno). reflexivity.
  - apply andb_true_iff in Hno. destruct Hno as [Ha Hidx].
    apply negb_true_iff, Pos.eqb_neq in Ha.
    assert (E : opt_map (eval inp st1) idx = opt_map (eval inp st2) idx).
    { apply opt_map_ext. rewrite forallb_forall in Hidx. rewrite Forall_forall in *.
      intros e He. apply H; auto. }
    rewrite E, (Hag a Ha). reflexivity.
  - rewrite IHe; auto.
  - rewrite IHe; auto.
  - apply andb_true_iff in Hno. destruct Hno as [H1 H2]. rewrite IHe1, IHe2; auto.
  - assert (E : opt_map (eval inp st1) args = opt_map (eval inp st2) args).
    { apply opt_map_ext. rewrite forallb_forall in Hno. rewrite Forall_forall in *.
      intros e He. apply H; auto. }
    rewrite E. reflexivity.
  - assert (E : opt_map (eval inp st1) args = opt_map (eval inp st2) args).
    { apply opt_map_ext. rewrite forallb_forall in Hno. rewrite Forall_forall in *.
      intros e He. apply H; auto. }
    rewrite E. reflexivity.
  - assert (E : opt_map (eval inp st1) args = opt_map (eval inp st2) args).
    { apply opt_map_ext. rewrite forallb_forall in Hno. rewrite Forall_forall in *.
      intros e He. apply H; auto. }
    rewrite E. reflexivity.
  - apply andb_true_iff in Hno. destruct Hno as [Hno H3].
    apply andb_true_iff in Hno. destruct Hno as [H1 H2].
    rewrite IHe1, IHe2, IHe3; auto.
Qed.

Lemma evals_agree inp st1 st2 :
  (forall x, x <> id_A -> PositiveMap.find x st1 = PositiveMap.find x st2) ->
  forall l, forallb (expr_no id_A) l = true -> evals inp st1 l = evals inp st2 l.
Proof.
  intros Hag l Hno. unfold LN.evals. apply opt_map_ext.
  rewrite forallb_forall in Hno. apply Forall_forall. intros e He.
  apply eval_agree; auto.
Qed.

Lemma R_add A0 st1 st2 x c :
  x <> id_A -> R A0 st1 st2 -> R A0 (PositiveMap.add x c st1) (PositiveMap.add x c st2).
Proof.
  intros Hx [H1 H2]. split.
  - intros y Hy. destruct (Pos.eq_dec y x) as [->|Hne].
    + rewrite !PositiveMap.gss. reflexivity.
    + rewrite !PositiveMap.gso by exact Hne. auto.
  - unfold RA. rewrite !PositiveMap.gso by congruence. exact H2.
Qed.

Lemma R_remove A0 st1 st2 x :
  x <> id_A -> R A0 st1 st2 -> R A0 (PositiveMap.remove x st1) (PositiveMap.remove x st2).
Proof.
  intros Hx [H1 H2]. split.
  - intros y Hy. destruct (Pos.eq_dec y x) as [->|Hne].
    + rewrite !PositiveMap.grs. reflexivity.
    + rewrite !PositiveMap.gro by congruence. auto.
  - unfold RA. rewrite !PositiveMap.gro by congruence. exact H2.
Qed.

Lemma R_remove_all A0 xs : ~ In id_A xs -> forall st1 st2,
  R A0 st1 st2 -> R A0 (remove_all xs st1) (remove_all xs st2).
Proof.
  unfold remove_all. induction xs as [|x xs IH]; intros Hn st1 st2 H; simpl; [exact H|].
  apply IH; [intro; apply Hn; right; assumption|].
  apply R_remove; [intros ->; apply Hn; left; reflexivity | exact H].
Qed.

Lemma R_fresh A0 st1 st2 x : R A0 st1 st2 -> fresh x st1 = fresh x st2.
Proof.
  intros [H1 H2]. unfold LN.fresh. f_equal.
  destruct (Pos.eq_dec x id_A) as [->|Hne].
  - destruct H2 as [ty [ro [sh [d1 [d2 [E1 [E2 _]]]]]]]. rewrite E1, E2. reflexivity.
  - rewrite (H1 x Hne). reflexivity.
Qed.

Lemma accum_only_declared s : accum_only s = true -> ~ In id_A (declared s).
Proof.
  induction s using stmt_ind'; simpl; intros Hacc Hin; try contradiction.
  - apply andb_true_iff in Hacc. destruct Hacc as [Hx _].
    apply negb_true_iff, Pos.eqb_neq in Hx. destruct Hin as [->|[]]. congruence.
  - apply andb_true_iff in Hacc. destruct Hacc as [Hx _].
    apply negb_true_iff, Pos.eqb_neq in Hx. destruct Hin as [->|[]]. congruence.
  - apply in_flat_map in Hin. destruct Hin as [s [Hs Hin]].
    rewrite forallb_forall in Hacc. rewrite Forall_forall in H.
    exact (H s Hs (Hacc s Hs) Hin).
Qed.

Lemma accum_only_declared_list l : forallb accum_only l = true -> ~ In id_A (declared_list l).
Proof. intros H. apply (accum_only_declared (SList l)). exact H. Qed.

Lemma rel3_nth A0 d1 d2 :
  rel3 A0 d1 d2 ->
  forall k v1, nth_error d1 k = Some v1 ->
  exists a t, nth_error A0 k = Some a /\ v1 = VF (tadd a t) /\ nth_error d2 k = Some (VF t).
Proof.
  induction 1 as [|a t A0 d1 d2 H IH]; intros k v1 E.
  - destruct k; discriminate.
  - destruct k; simpl in *.
    + inversion E; subst. eauto.
    + apply IH. exact E.
Qed.

Lemma rel3_set A0 d1 d2 :
  rel3 A0 d1 d2 ->
  forall k a t, nth_error A0 k = Some a ->
  rel3 A0 (set_nth k (VF (tadd a t)) d1) (set_nth k (VF t) d2).
Proof.
  induction 1 as [|a0 t0 A0 d1 d2 H IH]; intros k a t E.
  - destruct k; discriminate.
  - destruct k; simpl in *.
    + inversion E; subst. constructor. exact H.
    + constructor. apply IH. exact E.
Qed.

(* the lock-step lemma for lvalue writes that do not target A *)
Lemma write_other inp A0 st1 st2 l f st1' :
  R A0 st1 st2 -> lval_target l <> id_A -> lval_idx_no id_A l = true ->
  write inp st1 l f = Some st1' ->
  exists st2', write inp st2 l f = Some st2' /\ R A0 st1' st2'.
Proof.
  intros HR Ht Hidx E. destruct HR as [H1 H2].
  destruct l as [x|a idx]; simpl in *.
  - rewrite <- (H1 x Ht).
    destruct (PositiveMap.find x st1) as [[ty [|] v|]|]; try discriminate.
    destruct (f ty v) as [v'|]; [|discriminate]. inversion E; subst.
    eexists. split; [reflexivity|]. apply R_add; [exact Ht | split; assumption].
  - rewrite <- (evals_agree inp st1 st2 H1 idx Hidx).
    destruct (LN.evals T of_Z of_lit of_clit tadd tsub tmul tdiv tneg teqb tltb tleb tfn inp st1 idx)
      as [vs|]; [|discriminate].
    destruct (opt_map as_int vs) as [is|]; [|discriminate].
    rewrite <- (H1 a Ht).
    destruct (PositiveMap.find a st1) as [[|ty [|] shape data]|]; try discriminate.
    destruct (flat_index shape is 0) as [k|]; [|discriminate].
    destruct (nth_error data (Z.to_nat k)) as [v|]; [|discriminate].
    destruct (f ty v) as [v'|]; [|discriminate]. inversion E; subst.
    eexists. split; [reflexivity|]. apply R_add; [exact Ht | split; assumption].
Qed.

Lemma to_T_of_arith_add (x : T) (v r : val) :
  arith OAdd (VF x) v = Some r -> exists y, to_T v = Some y /\ r = VF (tadd x y).
Proof.
  destruct v as [z|y|b]; simpl; intros E; inversion E; subst; eauto.
Qed.

Lemma coerce_fl ty (x : T) : is_fl_ty ty = true -> coerce ty (VF x) = Some (VF x).
Proof. destruct ty; simpl; intros; try discriminate; reflexivity. Qed.

Lemma seq_lockstep inp A0 (l : list stmt) :
  Forall (fun s => forall st1 st2 st1',
            accum_only s = true -> R A0 st1 st2 -> exec inp s st1 = Some st1' ->
            exists st2', exec inp s st2 = Some st2' /\ R A0 st1' st2') l ->
  forallb accum_only l = true ->
  forall st1 st2 st1', R A0 st1 st2 -> seq_gen (exec inp) l st1 = Some st1' ->
  exists st2', seq_gen (exec inp) l st2 = Some st2' /\ R A0 st1' st2'.
Proof.
  induction 1 as [|s l Hs Hl IHl]; intros Hal s1 s2 s1' HR' E'; simpl in *.
  - inversion E'; subst. eauto.
  - apply andb_true_iff in Hal. destruct Hal as [Ha Hal].
    destruct (exec inp s s1) as [s1m|] eqn:E1; [|discriminate].
    destruct (Hs s1 s2 s1m Ha HR' E1) as [s2m [E2 HRm]]. rewrite E2.
    eapply IHl; eauto.
Qed.

Theorem accum_step inp A0 :
  forall s st1 st2 st1',
    accum_only s = true -> R A0 st1 st2 -> exec inp s st1 = Some st1' ->
    exists st2', exec inp s st2 = Some st2' /\ R A0 st1' st2'.
Proof.
  intros s. induction s using stmt_ind'; intros st1 st2 st1' Hacc HR E; simpl in *.
  - inversion E; subst. eauto.
  - (* SVarDecl *)
    apply andb_true_iff in Hacc. destruct Hacc as [Hx Hacc].
    apply negb_true_iff, Pos.eqb_neq in Hx.
    rewrite <- (R_fresh A0 st1 st2 x HR).
    destruct (fresh x st1) eqn:Hf; [|discriminate].
    rewrite <- (eval_agree inp st1 st2 (proj1 HR) e Hacc).
    destruct (eval inp st1 e) as [v|]; [|discriminate].
    destruct (coerce ty v) as [v'|]; [|discriminate]. inversion E; subst.
    eexists. split; [reflexivity|]. apply R_add; assumption.
  - (* SArrDecl *)
    apply andb_true_iff in Hacc. destruct Hacc as [Hx Hacc].
    apply negb_true_iff, Pos.eqb_neq in Hx.
    rewrite <- (R_fresh A0 st1 st2 x HR).
    destruct (fresh x st1 && forallb (fun n => 0 <? n) shape &&
              (Z.of_nat (List.length vals) <=? prodZ shape)); [|discriminate].
    rewrite <- (evals_agree inp st1 st2 (proj1 HR) vals Hacc).
    destruct (LN.evals T of_Z of_lit of_clit tadd tsub tmul tdiv tneg teqb tltb tleb tfn inp st1 vals)
      as [vs|]; [|discriminate].
    destruct (opt_map (coerce ty) vs) as [vs'|]; [|discriminate]. inversion E; subst.
    eexists. split; [reflexivity|]. apply R_add; assumption.
  - (* SAssign *)
    apply andb_true_iff in Hacc. destruct Hacc as [Hacc He].
    apply andb_true_iff in Hacc. destruct Hacc as [Ht Hidx].
    apply negb_true_iff, Pos.eqb_neq in Ht.
    rewrite <- (eval_agree inp st1 st2 (proj1 HR) e He).
    destruct (eval inp st1 e) as [v|]; [|discriminate].
    eapply write_other; eauto.
  - (* SAssignAdd *)
    apply andb_true_iff in Hacc. destruct Hacc as [Hidx He].
    rewrite <- (eval_agree inp st1 st2 (proj1 HR) e He).
    destruct (eval inp st1 e) as [v|]; [|discriminate].
    destruct (Pos.eq_dec (lval_target l) id_A) as [Ht|Ht]; [|eapply write_other; eauto].
    destruct HR as [H1 [ty [ro [sh [d1 [d2 [EA1 [EA2 [Hfl Hrel]]]]]]]]].
    (* the accumulation into the element tensor *)
    destruct l as [x|a idx]; simpl in Ht; subst; simpl in *.
    + rewrite EA1 in E. discriminate.
    + rewrite <- (evals_agree inp st1 st2 H1 idx Hidx).
      destruct (LN.evals T of_Z of_lit of_clit tadd tsub tmul tdiv tneg teqb tltb tleb tfn
                  inp st1 idx) as [vs|]; [|discriminate].
      destruct (opt_map as_int vs) as [is|]; [|discriminate].
      rewrite EA1 in E. rewrite EA2.
      destruct ro; [discriminate|].
      destruct (flat_index sh is 0) as [k|]; [|discriminate].
      destruct (nth_error d1 (Z.to_nat k)) as [v1|] eqn:En1; [|discriminate].
      destruct (rel3_nth A0 d1 d2 Hrel _ _ En1) as [a [t [Ea [-> En2]]]].
      rewrite En2.
      destruct (arith OAdd (VF (tadd a t)) v) as [r|] eqn:Er; [|discriminate].
      destruct (to_T_of_arith_add _ _ _ Er) as [y [Ey ->]].
      rewrite (coerce_fl ty _ Hfl) in E. inversion E; subst.
      assert (Er2 : arith OAdd (VF t) v = Some (VF (tadd t y))).
      { destruct v as [z|y'|b0]; simpl in *; inversion Ey; subst; reflexivity. }
      rewrite Er2, (coerce_fl ty _ Hfl).
      eexists. split; [reflexivity|]. split.
      * intros x Hx. rewrite !PositiveMap.gso by exact Hx. auto.
      * exists ty, false, sh, (set_nth (Z.to_nat k) (VF (tadd a (tadd t y))) d1),
          (set_nth (Z.to_nat k) (VF (tadd t y)) d2).
        rewrite !PositiveMap.gss, tadd_assoc.
        repeat split; auto. apply rel3_set; assumption.
  - (* SFor *)
    apply andb_true_iff in Hacc. destruct Hacc as [Hi Hacc].
    apply negb_true_iff, Pos.eqb_neq in Hi.
    rewrite <- (R_fresh A0 st1 st2 i HR).
    destruct (fresh i st1); [|discriminate].
    revert E. generalize (Z.to_nat (e - b)) as n. generalize b as k.
    intros k n. revert k st1 st2 st1' HR.
    induction n as [|n IHn]; intros k s1 s2 s1' HR' E'; simpl in *.
    + inversion E'; subst. eauto.
    + destruct (seq_gen (exec inp) body (PositiveMap.add i (CScalar DInt true (VI k)) s1))
        as [s1m|] eqn:E1; [|discriminate].
      destruct (seq_lockstep inp A0 body H Hacc _ _ _
                  (R_add A0 s1 s2 i (CScalar DInt true (VI k)) Hi HR') E1) as [s2m [E2 HRm]].
      rewrite E2. eapply IHn; [|exact E']. apply R_remove; [exact Hi|].
      apply R_remove_all; [apply accum_only_declared_list; exact Hacc | exact HRm].
  - (* SBlock *)
    destruct (seq_gen (exec inp) body st1) as [s1m|] eqn:E1; [|discriminate].
    destruct (seq_lockstep inp A0 body H Hacc _ _ _ HR E1) as [s2m [E2 HRm]]. rewrite E2.
    inversion E; subst. eexists. split; [reflexivity|].
    apply R_remove_all; [apply accum_only_declared_list; exact Hacc | exact HRm].
  - (* SList *)
    eapply seq_lockstep; eauto.
Qed.

(* ---------- kernel level ---------- *)

Definition vf_list (l : list T) : list val := map (fun x => VF x) l.
Definition zeros (n : nat) : list T := repeat (of_Z 0) n.

Lemma rel3_init A0 : rel3 A0 (vf_list A0) (vf_list (zeros (List.length A0))).
Proof.
  induction A0 as [|a A0 IH]; simpl; [constructor|].
  rewrite <- (tadd_0_r a) at 2. constructor. exact IH.
Qed.

Lemma rel3_out A0 d1 d2 :
  rel3 A0 d1 d2 ->
  exists D, d2 = vf_list D /\ d1 = vf_list (map (fun p => tadd (fst p) (snd p)) (combine A0 D))
            /\ List.length D = List.length A0.
Proof.
  induction 1 as [|a t A0 d1 d2 H [D [E2 [E1 EL]]]].
  - exists []. repeat split.
  - exists (t :: D). simpl. rewrite E1, E2, EL. repeat split.
Qed.

(* C07: A1 = A0 (+) D where D is what the kernel adds to a zero tensor. *)
Theorem kernel_accumulates inp body (A0 : list T) A1 :
  accum_only_list body = true ->
  run_kernel inp body (vf_list A0) = Some A1 ->
  exists D, run_kernel inp body (vf_list (zeros (List.length A0))) = Some (vf_list D) /\
            List.length D = List.length A0 /\
            A1 = vf_list (map (fun p => tadd (fst p) (snd p)) (combine A0 D)).
Proof.
  intros Hacc E. unfold LN.run_kernel in *.
  destruct (LN.exec_list T of_Z of_lit of_clit tadd tsub tmul tdiv tneg teqb tltb tleb tfn
              inp body (init_store (vf_list A0))) as [st1|] eqn:E1; [|discriminate].
  assert (HR : R A0 (init_store (vf_list A0)) (init_store (vf_list (zeros (List.length A0))))).
  { unfold init_store. split.
    - intros x Hx. rewrite !PositiveMap.gso by exact Hx. reflexivity.
    - unfold vf_list, zeros. rewrite !map_length, repeat_length.
      do 5 eexists. rewrite !PositiveMap.gss. repeat split. apply rel3_init. }
  assert (HF : Forall (fun s => forall st1 st2 st1',
            accum_only s = true -> R A0 st1 st2 -> exec inp s st1 = Some st1' ->
            exists st2', exec inp s st2 = Some st2' /\ R A0 st1' st2') body).
  { apply Forall_forall. intros s _. apply accum_step. }
  destruct (seq_lockstep inp A0 body HF Hacc _ _ _ HR E1) as [st2 [E2 [H1 H2]]].
  unfold LN.exec_list. rewrite E2. unfold LN.get_A in *.
  destruct H2 as [ty [ro [sh [d1 [d2 [EA1 [EA2 [Hfl Hrel]]]]]]]].
  rewrite EA1 in E. rewrite EA2. inversion E; subst.
  destruct (rel3_out A0 A1 d2 Hrel) as [D [-> [-> EL]]].
  exists D. auto.
Qed.

End Accum.
