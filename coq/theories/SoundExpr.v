(* SoundExpr.v — soundness of Check.aeval w.r.t. LN.eval, for any numeric domain. *)

From Coq Require Import ZArith List Bool String FMapPositive Lia.
From FFCX Require Import LN Check.
Import ListNotations.
Open Scope Z_scope.

(* nested induction principle for expr *)
Section ExprInd.
Variable P : expr -> Prop.
Hypothesis HLitI : forall z, P (ELitI z).
Hypothesis HLitF : forall m e, P (ELitF m e).
Hypothesis HLitC : forall a b c d, P (ELitC a b c d).
Hypothesis HSym : forall x, P (ESym x).
Hypothesis HAcc : forall a idx, Forall P idx -> P (EAcc a idx).
Hypothesis HNeg : forall a, P a -> P (ENeg a).
Hypothesis HNot : forall a, P a -> P (ENot a).
Hypothesis HBin : forall op l r, P l -> P r -> P (EBin op l r).
Hypothesis HSum : forall args, Forall P args -> P (ESum args).
Hypothesis HProd : forall args, Forall P args -> P (EProd args).
Hypothesis HCall : forall f args, Forall P args -> P (ECall f args).
Hypothesis HCond : forall c t f, P c -> P t -> P f -> P (ECond c t f).

Fixpoint expr_ind' (e : expr) : P e :=
  let go := fix go (l : list expr) : Forall P l :=
      match l with
      | [] => Forall_nil P
      | x :: l' => Forall_cons x (expr_ind' x) (go l')
      end in
  match e with
  | ELitI z => HLitI z
  | ELitF m e => HLitF m e
  | ELitC a b c d => HLitC a b c d
  | ESym x => HSym x
  | EAcc a idx => HAcc a idx (go idx)
  | ENeg a => HNeg a (expr_ind' a)
  | ENot a => HNot a (expr_ind' a)
  | EBin op l r => HBin op l r (expr_ind' l) (expr_ind' r)
  | ESum args => HSum args (go args)
  | EProd args => HProd args (go args)
  | ECall f args => HCall f args (go args)
  | ECond c t f => HCond c t f (expr_ind' c) (expr_ind' t) (expr_ind' f)
  end.
End ExprInd.

Section Sound.
Set Default Proof Using "All".

Variable T : Type.
Variable of_Z : Z -> T.
Variable of_lit : Z -> Z -> T.
Variable of_clit : Z -> Z -> Z -> Z -> T.
Variable tadd tsub tmul tdiv : T -> T -> T.
Variable tneg : T -> T.
Variable teqb tltb tleb : T -> T -> bool.
Variable tfn : string -> list T -> T.

Notation val := (@val T).
Notation cell := (@cell T).
Notation store := (@store T).
Notation inputs := (@inputs T).
Notation eval := (@eval T of_Z of_lit of_clit tadd tsub tmul tdiv tneg teqb tltb tleb tfn).
Notation evals := (@evals T of_Z of_lit of_clit tadd tsub tmul tdiv tneg teqb tltb tleb tfn).
Notation arith := (@arith T of_Z tadd tsub tmul tdiv teqb tltb tleb).
Notation fold_arith := (@fold_arith T of_Z tadd tsub tmul tdiv teqb tltb tleb).
Notation to_T := (@to_T T of_Z).
Notation coerce := (@coerce T of_Z).

Definition val_ok (v : val) (a : aval) : Prop :=
  match a, v with
  | AVI lo hi, VI z => lo <= z <= hi
  | AVF, VF _ => True
  | AVN, VI _ => True
  | AVN, VF _ => True
  | AVB, VB _ => True
  | _, _ => False
  end.

Definition val_ty_ok (ty : dtype) (iv : option (Z * Z)) (v : val) : Prop :=
  match ty, v with
  | DInt, VI z => match iv with Some (lo, hi) => lo <= z <= hi | None => True end
  | DBool, VB _ => True
  | DReal, VF _ => True
  | DScalar, VF _ => True
  | _, _ => False
  end.

Definition cell_ok (c : cell) (a : acell) : Prop :=
  match c, a with
  | CScalar ty ro v, AScalar ty' ro' iv => ty = ty' /\ ro = ro' /\ val_ty_ok ty iv v
  | CArr ty ro shape data, AArr ty' ro' shape' iv =>
      ty = ty' /\ ro = ro' /\ shape = shape' /\
      List.length data = Z.to_nat (prodZ shape) /\
      Forall (val_ty_ok ty iv) data /\ Forall (fun n => 0 < n) shape
  | _, _ => False
  end.

Definition env_ok (st : store) (G : aenv) : Prop :=
  forall x, match PositiveMap.find x st, PositiveMap.find x G with
            | Some c, Some a => cell_ok c a
            | None, None => True
            | _, _ => False
            end.

Definition idx_allowed (ic : ictx) (a : ident) (i : Z) : bool :=
  match ic a with
  | Some c => existsb (fun r => (fst r <=? i) && (i <? snd r)) (ic_allowed c)
  | None => false
  end.

Definition inp_ok (ic : ictx) (inp : inputs) : Prop :=
  forall a c i, ic a = Some c -> idx_allowed ic a i = true ->
                exists v, inp a i = Some v /\ val_ty_ok (ic_ty c) (ic_range c) v.

(* ---------- small facts ---------- *)

Lemma aval_of_ty_ok ty iv v a :
  val_ty_ok ty iv v -> aval_of_ty ty iv = Some a -> val_ok v a.
Proof.
  destruct ty, v; simpl; try tauto; intros H E.
  all: try (inversion E; subst; exact I).
  destruct iv as [[lo hi]|]; inversion E; subst; simpl; exact H.
Qed.

Lemma is_num_to_T v a : val_ok v a -> is_num a = true -> exists x, to_T v = Some x.
Proof.
  destruct a, v; simpl; try tauto; try discriminate; eauto.
Qed.

Lemma mul_hull a b x y : a <= x <= b -> Z.min (a*y) (b*y) <= x*y <= Z.max (a*y) (b*y).
Proof. intros H. destruct (Z_le_gt_dec 0 y); nia. Qed.

Lemma mul_interval l1 h1 l2 h2 x y :
  l1 <= x <= h1 -> l2 <= y <= h2 ->
  min4 (l1 * l2) (l1 * h2) (h1 * l2) (h1 * h2) <= x * y <=
  max4 (l1 * l2) (l1 * h2) (h1 * l2) (h1 * h2).
Proof.
  intros Hx Hy. unfold min4, max4.
  pose proof (mul_hull l1 h1 x y Hx) as A.
  pose proof (mul_hull l2 h2 y l1 Hy) as B.
  pose proof (mul_hull l2 h2 y h1 Hy) as C.
  rewrite (Z.mul_comm y l1), (Z.mul_comm l2 l1), (Z.mul_comm h2 l1) in B.
  rewrite (Z.mul_comm y h1), (Z.mul_comm l2 h1), (Z.mul_comm h2 h1) in C.
  lia.
Qed.

Lemma aarith_sound op a b c x y :
  aarith op a b = Some c -> val_ok x a -> val_ok y b ->
  exists z, arith op x y = Some z /\ val_ok z c.
Proof.
  intros E Hx Hy.
  destruct op; simpl in E.
  (* OAdd OSub OMul *)
  1-3: destruct a, b, x, y; simpl in *; try tauto; try discriminate;
       inversion E; subst; simpl; eexists; split; try reflexivity; simpl; try exact I; try lia.
  - (* mul intervals *) apply mul_interval; assumption.
  - (* ODiv *)
    destruct a, b, x, y; simpl in *; try tauto; try discriminate;
      inversion E; subst; simpl; eexists; split; try reflexivity; exact I.
  - destruct a, b, x, y; simpl in *; try tauto; try discriminate;
      inversion E; subst; simpl; eexists; split; try reflexivity; exact I.
  - destruct a, b, x, y; simpl in *; try tauto; try discriminate;
      inversion E; subst; simpl; eexists; split; try reflexivity; exact I.
  - destruct a, b, x, y; simpl in *; try tauto; try discriminate;
      inversion E; subst; simpl; eexists; split; try reflexivity; exact I.
  - destruct a, b, x, y; simpl in *; try tauto; try discriminate;
      inversion E; subst; simpl; eexists; split; try reflexivity; exact I.
  - destruct a, b, x, y; simpl in *; try tauto; try discriminate;
      inversion E; subst; simpl; eexists; split; try reflexivity; exact I.
  - destruct a, b, x, y; simpl in *; try tauto; try discriminate;
      inversion E; subst; simpl; eexists; split; try reflexivity; exact I.
  - destruct a, b, x, y; simpl in *; try tauto; try discriminate;
      inversion E; subst; simpl; eexists; split; try reflexivity; exact I.
  - destruct a, b, x, y; simpl in *; try tauto; try discriminate;
      inversion E; subst; simpl; eexists; split; try reflexivity; exact I.
Qed.

Lemma afold_step_sound op :
  forall avs vs acc_a acc_v r,
    Forall2 val_ok vs avs ->
    val_ok acc_v acc_a ->
    fold_left (fun acc x => match acc with Some a => aarith op a x | None => None end)
              avs (Some acc_a) = Some r ->
    exists z,
      fold_left (fun acc x => match acc with Some a => arith op a x | None => None end)
                vs (Some acc_v) = Some z /\ val_ok z r.
Proof.
  induction avs as [|a avs IH]; intros vs acc_a acc_v r HF Hacc E.
  - inversion HF; subst. simpl in *. inversion E; subst. eauto.
  - inversion HF as [|v a' vs' avs' Hv HF']; subst. simpl in E.
    destruct (aarith op acc_a a) as [c|] eqn:Ea.
    + destruct (aarith_sound _ _ _ _ _ _ Ea Hacc Hv) as [z [Ez Hz]].
      simpl. rewrite Ez. eapply IH; eauto.
    + exfalso. clear -E. induction avs; simpl in E; [discriminate | auto].
Qed.

Lemma afold_sound op avs vs r :
  Forall2 val_ok vs avs -> afold op avs = Some r ->
  exists z, fold_arith op vs = Some z /\ val_ok z r.
Proof.
  intros HF E. destruct avs as [|a avs]; [discriminate|].
  inversion HF as [|v a' vs' avs' Hv HF']; subst.
  unfold afold in E. unfold LN.fold_arith. eapply afold_step_sound; eauto.
Qed.

Lemma ajoin_sound a b c v :
  ajoin a b = Some c -> (val_ok v a \/ val_ok v b) -> val_ok v c.
Proof.
  intros E H.
  destruct a, b, v; simpl in *; try discriminate; inversion E; subst; simpl;
    destruct H as [H|H]; try tauto; try lia.
Qed.

(* flat index *)
Lemma flat_index_sound :
  forall shape avs vs acc,
    idx_ok shape avs = true -> Forall2 val_ok vs avs -> Forall (fun n => 0 < n) shape ->
    0 <= acc ->
    exists is k, opt_map as_int vs = Some is /\ flat_index shape is acc = Some k /\
                 acc * prodZ shape <= k < (acc + 1) * prodZ shape.
Proof.
  induction shape as [|n shape IH]; intros avs vs acc Hok HF Hpos Hacc.
  - destruct avs; simpl in Hok; [|discriminate]. inversion HF; subst.
    exists [], acc. simpl. repeat split; try reflexivity; lia.
  - destruct avs as [|a avs]; simpl in Hok; [discriminate|].
    destruct a as [lo hi| | |]; try discriminate.
    apply andb_true_iff in Hok. destruct Hok as [Hok Hrest].
    apply andb_true_iff in Hok. destruct Hok as [Hlo Hhi].
    apply Z.leb_le in Hlo. apply Z.ltb_lt in Hhi.
    inversion HF as [|v a' vs' avs' Hv HF']; subst.
    destruct v as [z| |]; simpl in Hv; try tauto.
    inversion Hpos as [|n' s' Hn Hpos']; subst.
    assert (Hz : 0 <= z < n) by lia.
    destruct (IH avs vs' (acc * n + z) Hrest HF' Hpos') as [is [k [E1 [E2 Hk]]]]; [nia|].
    exists (z :: is), k. simpl. rewrite E1. split; [reflexivity|].
    assert (Hb : (0 <=? z) && (z <? n) = true).
    { apply andb_true_iff. split; [apply Z.leb_le | apply Z.ltb_lt]; lia. }
    rewrite Hb. split; [exact E2|].
    assert (Hp : 0 < prodZ shape).
    { clear -Hpos'. induction Hpos'; simpl; [lia | nia]. }
    simpl. nia.
Qed.

Lemma prodZ_pos shape : Forall (fun n => 0 < n) shape -> 0 < prodZ shape.
Proof. induction 1; simpl; [lia | nia]. Qed.

(* ---------- lists ---------- *)

Lemma evals_sound_list ic G inp st l :
  Forall (fun e => forall a, aeval ic G e = Some a ->
                             exists v, eval inp st e = Some v /\ val_ok v a) l ->
  forall avs, aevals ic G l = Some avs ->
              exists vs, evals inp st l = Some vs /\ Forall2 val_ok vs avs.
Proof.
  induction 1 as [|e l He Hl IH]; intros avs E; simpl in *.
  - inversion E; subst. exists []. split; [reflexivity | constructor].
  - destruct (aeval ic G e) as [a|] eqn:Ea; [|discriminate].
    destruct (aevals ic G l) as [as'|] eqn:El; [|discriminate].
    inversion E; subst.
    destruct (He a eq_refl) as [v [Ev Hv]].
    destruct (IH as' eq_refl) as [vs [Evs Hvs]].
    exists (v :: vs). unfold LN.evals in *. simpl. rewrite Ev, Evs.
    split; [reflexivity | constructor; assumption].
Qed.

Lemma forall_num_to_T vs avs :
  Forall2 val_ok vs avs -> forallb is_num avs = true -> exists xs, opt_map to_T vs = Some xs.
Proof.
  induction 1 as [|v a vs avs Hv HF IH]; simpl; intros E.
  - eauto.
  - apply andb_true_iff in E. destruct E as [Ea Er].
    destruct (is_num_to_T _ _ Hv Ea) as [x Ex]. destruct (IH Er) as [xs Exs].
    rewrite Ex, Exs. eauto.
Qed.

Theorem aeval_sound ic G inp st :
  env_ok st G -> inp_ok ic inp ->
  forall e a, aeval ic G e = Some a -> exists v, eval inp st e = Some v /\ val_ok v a.
Proof.
  intros Henv Hinp e.
  induction e using expr_ind'; intros av E; simpl in E.
  - inversion E; subst. eexists; split; [reflexivity|]. simpl. lia.
  - inversion E; subst. eexists; split; [reflexivity|]. exact I.
  - inversion E; subst. eexists; split; [reflexivity|]. exact I.
  - (* ESym *)
    specialize (Henv x). simpl.
    destruct (PositiveMap.find x G) as [[ty ro iv|]|] eqn:EG; try discriminate.
    destruct (PositiveMap.find x st) as [[ty' ro' v|]|]; simpl in Henv; try tauto.
    destruct Henv as [-> [-> Hv]].
    exists v. split; [reflexivity|]. eapply aval_of_ty_ok; eauto.
  - (* EAcc *)
    change (opt_map (aeval ic G)) with (aevals ic G) in E.
    destruct (aevals ic G idx) as [avs|] eqn:Eidx; [|discriminate].
    destruct (evals_sound_list ic G inp st idx H avs Eidx) as [vs [Evs HF]].
    simpl. change (opt_map (eval inp st)) with (evals inp st). rewrite Evs.
    destruct (is_input a) eqn:Hin.
    + destruct (ic a) as [c|] eqn:Eic; [|discriminate].
      destruct avs as [|[lo hi| | |] [|? ?]]; try discriminate.
      destruct (in_allowed (ic_allowed c) lo hi) eqn:Hall; [|discriminate].
      inversion HF as [|v a' vs' avs' Hv HF']; subst. inversion HF'; subst.
      destruct v as [z| |]; simpl in Hv; try tauto.
      simpl.
      assert (Hal : idx_allowed ic a z = true).
      { unfold idx_allowed. rewrite Eic. unfold in_allowed in Hall.
        apply existsb_exists in Hall. destruct Hall as [r [Hr Hb]].
        apply existsb_exists. exists r. split; [exact Hr|].
        apply andb_true_iff in Hb. destruct Hb as [H1 H2].
        apply Z.leb_le in H1. apply Z.ltb_lt in H2.
        apply andb_true_iff. split; [apply Z.leb_le | apply Z.ltb_lt]; lia. }
      destruct (Hinp a c z Eic Hal) as [v [Ev Hv']].
      exists v. split; [exact Ev|]. eapply aval_of_ty_ok; eauto.
    + specialize (Henv a).
      destruct (PositiveMap.find a G) as [[|ty ro shape iv]|] eqn:EG; try discriminate.
      destruct (idx_ok shape avs) eqn:Hidx; [|discriminate].
      destruct (PositiveMap.find a st) as [[|ty' ro' shape' data]|]; simpl in Henv; try tauto.
      destruct Henv as [-> [-> [-> [Hlen [Hdata Hpos]]]]].
      destruct (flat_index_sound shape avs vs 0 Hidx HF Hpos) as [is [k [E1 [E2 Hk]]]]; [lia|].
      rewrite E1, E2.
      assert (Hn : (Z.to_nat k < List.length data)%nat) by (rewrite Hlen; lia).
      destruct (nth_error data (Z.to_nat k)) as [v|] eqn:En.
      * exists v. split; [reflexivity|].
        eapply aval_of_ty_ok; eauto.
        eapply Forall_forall in Hdata; eauto. eapply nth_error_In; eauto.
      * apply nth_error_None in En. lia.
  - (* ENeg *)
    destruct (aeval ic G e) as [a|] eqn:Ea; [|discriminate].
    destruct (IHe a eq_refl) as [v [Ev Hv]]. simpl. rewrite Ev.
    destruct a, v; simpl in *; try tauto; try discriminate; inversion E; subst;
      eexists; split; try reflexivity; simpl; try exact I; lia.
  - (* ENot *)
    destruct (aeval ic G e) as [a|] eqn:Ea; [|discriminate].
    destruct (IHe a eq_refl) as [v [Ev Hv]]. simpl. rewrite Ev.
    destruct a, v; simpl in *; try tauto; try discriminate; inversion E; subst;
      eexists; split; try reflexivity; exact I.
  - (* EBin *)
    destruct (aeval ic G e1) as [a|] eqn:Ea; [|discriminate].
    destruct (aeval ic G e2) as [b|] eqn:Eb; [|discriminate].
    destruct (IHe1 a eq_refl) as [x [Ex Hx]]. destruct (IHe2 b eq_refl) as [y [Ey Hy]].
    simpl. rewrite Ex, Ey. eapply aarith_sound; eauto.
  - (* ESum *)
    change (opt_map (aeval ic G)) with (aevals ic G) in E.
    destruct (aevals ic G args) as [avs|] eqn:Eargs; [|discriminate].
    destruct (evals_sound_list ic G inp st args H avs Eargs) as [vs [Evs HF]].
    simpl. change (opt_map (eval inp st)) with (evals inp st). rewrite Evs. eapply afold_sound; eauto.
  - (* EProd *)
    change (opt_map (aeval ic G)) with (aevals ic G) in E.
    destruct (aevals ic G args) as [avs|] eqn:Eargs; [|discriminate].
    destruct (evals_sound_list ic G inp st args H avs Eargs) as [vs [Evs HF]].
    simpl. change (opt_map (eval inp st)) with (evals inp st). rewrite Evs. eapply afold_sound; eauto.
  - (* ECall *)
    change (opt_map (aeval ic G)) with (aevals ic G) in E.
    destruct (aevals ic G args) as [avs|] eqn:Eargs; [|discriminate].
    destruct (forallb is_num avs) eqn:Hnum; [|discriminate].
    destruct (evals_sound_list ic G inp st args H avs Eargs) as [vs [Evs HF]].
    destruct (forall_num_to_T vs avs HF Hnum) as [xs Exs].
    simpl. change (opt_map (eval inp st)) with (evals inp st). rewrite Evs, Exs. inversion E; subst.
    eexists; split; [reflexivity | exact I].
  - (* ECond *)
    destruct (aeval ic G e1) as [[| | |]|] eqn:Ec; try discriminate.
    destruct (aeval ic G e2) as [a|] eqn:Ea; [|discriminate].
    destruct (aeval ic G e3) as [b|] eqn:Eb; [|discriminate].
    destruct (IHe1 AVB eq_refl) as [vc [Evc Hvc]].
    destruct (IHe2 a eq_refl) as [x [Ex Hx]]. destruct (IHe3 b eq_refl) as [y [Ey Hy]].
    simpl. rewrite Evc. destruct vc as [| |[|]]; simpl in Hvc; try tauto.
    + rewrite Ex. exists x. split; [reflexivity|]. eapply ajoin_sound; eauto.
    + rewrite Ey. exists y. split; [reflexivity|]. eapply ajoin_sound; eauto.
Qed.

Lemma aevals_sound ic G inp st :
  env_ok st G -> inp_ok ic inp ->
  forall l avs, aevals ic G l = Some avs ->
                exists vs, evals inp st l = Some vs /\ Forall2 val_ok vs avs.
Proof.
  intros Henv Hinp l avs E. eapply evals_sound_list; eauto.
  apply Forall_forall. intros e _ a Ea. eapply aeval_sound; eauto.
Qed.

Lemma acoerce_sound ty a iv v :
  acoerce ty a = Some iv -> val_ok v a ->
  exists v', coerce ty v = Some v' /\ val_ty_ok ty iv v'.
Proof.
  destruct ty, a, v; simpl; intros E H; try tauto; try discriminate;
    inversion E; subst; eexists; split; try reflexivity; simpl; try exact I; exact H.
Qed.

End Sound.
