(* OptProps.v — facts about the optimiser model (Opt.v) that hold for EVERY code list, section and
   product, by induction (no bound on the number of sections, loops, statements or factors).

   What is proved here is the structural and algebraic half of "the passes preserve the tensor":
     - fuse_sections moves nothing but the sections of the given name, keeps every other item in place
       and in order, leaves at most one section of that name, whose statements / declarations are the
       concatenations (in order) of those of the sections it replaces;
     - as_statement's clean-up (norm1) does not change what a statement does (LN.exec, any store);
     - fuse_loops keeps the non-loop statements in order and, for every (index, begin, end), the fused
       loop's body is the in-order list of the bodies of the loops with that range — no body is lost,
       duplicated or filed under another range;
     - licm's split of a product is a permutation of its factors, and the rewritten product
       (kept factors) * (product of the hoisted factors) has the value of the original product in every
       commutative monoid.
   The semantic half that needs the store (statements moved past one another do not interfere; the
   temporary holds the hoisted product when it is read) is NOT proved for all trees: it is decided per
   exported kernel pair by SymEq.kernels_equiv (C17) — see DESIGN.md S.2. *)

From Coq Require Import ZArith List Bool String Permutation Lia.
Require Import FFCX.LN FFCX.Opt.
Import ListNotations.

(* ------------------------------------------------------------------ *)
(* fuse_sections *)

Definition is_named (n : string) (it : item) : bool :=
  match named n it with Some _ => true | None => false end.

Lemma named_sname n it s : named n it = Some s -> sname s = n /\ it = ISec s.
Proof.
  destruct it as [st|s0]; simpl; [discriminate|].
  destruct (String.eqb (sname s0) n) eqn:E; [|discriminate].
  intros H; inversion H; subst. apply String.eqb_eq in E. auto.
Qed.

Lemma is_named_sec n f : sname f = n -> is_named n (ISec f) = true.
Proof. intros <-. unfold is_named, named. rewrite String.eqb_refl. reflexivity. Qed.

Lemma replace_first_others n f (Hf : sname f = n) : forall code seen,
  filter (fun it => negb (is_named n it)) (replace_first n f seen code)
  = filter (fun it => negb (is_named n it)) code.
Proof.
  induction code as [|it r IH]; intros seen; simpl; [reflexivity|].
  unfold is_named at 2. destruct (named n it) as [s|] eqn:E; simpl.
  - destruct seen; simpl.
    + apply IH.
    + rewrite (is_named_sec n f Hf). simpl. apply IH.
  - unfold is_named at 1. rewrite E. simpl. f_equal. apply IH.
Qed.

(* every item that is not a section of that name stays, in the same order *)
Theorem fuse_sections_keeps_the_other_items code n :
  filter (fun it => negb (is_named n it)) (fuse_sections code n)
  = filter (fun it => negb (is_named n it)) code.
Proof. apply replace_first_others. reflexivity. Qed.

Lemma replace_first_named n f (Hf : sname f = n) : forall code seen,
  named_sections n (replace_first n f seen code)
  = if seen then [] else match named_sections n code with [] => [] | _ => [f] end.
Proof.
  unfold named_sections.
  induction code as [|it r IH]; intros seen; simpl.
  - destruct seen; reflexivity.
  - destruct (named n it) as [s|] eqn:E.
    + destruct seen; simpl.
      * rewrite IH. reflexivity.
      * unfold named at 1. rewrite Hf, String.eqb_refl. simpl. rewrite IH. reflexivity.
    + simpl. rewrite E. simpl. apply IH.
Qed.

(* at most one section of the name is left; it is the fused one *)
Theorem fuse_sections_leaves_one code n :
  named_sections n (fuse_sections code n)
  = match named_sections n code with [] => [] | _ => [fused_section n code] end.
Proof. unfold fuse_sections. rewrite replace_first_named; reflexivity. Qed.

(* ... and nothing at all changes when there is no such section *)
Lemma replace_first_none n f : forall code seen,
  named_sections n code = [] -> replace_first n f seen code = code.
Proof.
  unfold named_sections.
  induction code as [|it r IH]; intros seen H; simpl in *; [reflexivity|].
  destruct (named n it) as [s|] eqn:E; simpl in H; [discriminate|].
  f_equal. apply IH. exact H.
Qed.

Theorem fuse_sections_without_match code n :
  named_sections n code = [] -> fuse_sections code n = code.
Proof. apply replace_first_none. Qed.

(* the fused section carries the statements and the declarations of the sections it replaces, in order *)
Theorem fused_section_contents code n :
  sstmts (fused_section n code) = map norm1 (flat_map sstmts (named_sections n code))
  /\ sdecls (fused_section n code) = flat_map sdecls (named_sections n code)
  /\ sname (fused_section n code) = n.
Proof. repeat split. Qed.

(* the position of the fused section is that of the first section of the name *)
Lemma replace_first_prefix n f : forall pre it rest,
  named_sections n pre = [] -> is_named n it = true ->
  replace_first n f false (pre ++ it :: rest) = pre ++ ISec f :: replace_first n f true rest.
Proof.
  unfold named_sections.
  induction pre as [|p pre IH]; intros it rest Hpre Hit; simpl in *.
  - unfold is_named in Hit. destruct (named n it); [reflexivity|discriminate].
  - destruct (named n p) eqn:E; simpl in Hpre; [discriminate|].
    f_equal. apply IH; assumption.
Qed.

Lemma replace_first_seen_drops n f : forall code,
  replace_first n f true code = filter (fun it => negb (is_named n it)) code.
Proof.
  induction code as [|it r IH]; simpl; [reflexivity|].
  unfold is_named. destruct (named n it); simpl; [apply IH | f_equal; apply IH].
Qed.

Theorem fuse_sections_shape code n pre it rest :
  code = pre ++ it :: rest -> named_sections n pre = [] -> is_named n it = true ->
  fuse_sections code n
  = pre ++ ISec (fused_section n code) :: filter (fun x => negb (is_named n x)) rest.
Proof.
  intros -> Hpre Hit. unfold fuse_sections.
  rewrite replace_first_prefix by assumption. rewrite replace_first_seen_drops. reflexivity.
Qed.

(* ------------------------------------------------------------------ *)
(* as_statement's clean-up is semantically the identity *)

Section Norm.
Variable T : Type.
Variable of_Z : Z -> T.
Variable of_lit : Z -> Z -> T.
Variable of_clit : Z -> Z -> Z -> Z -> T.
Variable tadd tsub tmul tdiv : T -> T -> T.
Variable tneg : T -> T.
Variable teqb tltb tleb : T -> T -> bool.
Variable tfn : string -> list T -> T.
Notation exec := (@exec T of_Z of_lit of_clit tadd tsub tmul tdiv tneg teqb tltb tleb tfn).
Notation exec_list := (@exec_list T of_Z of_lit of_clit tadd tsub tmul tdiv tneg teqb tltb tleb tfn).

Lemma exec_norm1 inp s st : exec inp (norm1 s) st = exec inp s st.
Proof.
  destruct s as [| | | | | |body|body]; try reflexivity.
  destruct body as [|x [|y r]]; try reflexivity.
  simpl. destruct (exec inp x st); reflexivity.
Qed.

Lemma exec_wrap_body inp body st : exec inp (wrap_body body) st = exec inp (SList body) st.
Proof.
  destruct body as [|x [|y r]]; try reflexivity.
  simpl. destruct (exec inp x st); reflexivity.
Qed.

Theorem exec_list_norm1 inp l : forall st, exec_list inp (map norm1 l) st = exec_list inp l st.
Proof.
  unfold LN.exec_list. induction l as [|s l IH]; intros st; simpl; [reflexivity|].
  rewrite exec_norm1. destruct (exec inp s st); [apply IH | reflexivity].
Qed.

(* declared names are not changed by the clean-up either (scoping of the enclosing block) *)
Lemma declared_norm1 s : declared (norm1 s) = declared s.
Proof.
  destruct s as [| | | | | |body|body]; try reflexivity.
  destruct body as [|x [|y r]]; try reflexivity. simpl. rewrite app_nil_r. reflexivity.
Qed.

Lemma declared_list_norm1 l : declared_list (map norm1 l) = declared_list l.
Proof.
  unfold declared_list. induction l as [|s l IH]; simpl; [reflexivity|].
  rewrite declared_norm1, IH. reflexivity.
Qed.

End Norm.

(* ------------------------------------------------------------------ *)
(* fuse_loops *)

Definition bodies_with (k : lkey) (l : list stmt) : list (list stmt) :=
  flat_map (fun st => match st with
                      | SFor i b e body => if lkey_eqb k (i, b, e) then [body] else []
                      | _ => []
                      end) l.

Fixpoint bucket (k : lkey) (acc : list (lkey * list (list stmt))) : list (list stmt) :=
  match acc with
  | [] => []
  | (k', bs) :: r => if lkey_eqb k k' then bs else bucket k r
  end.

Lemma lkey_eqb_refl k : lkey_eqb k k = true.
Proof. destruct k as [[i b] e]. simpl. rewrite Pos.eqb_refl, !Z.eqb_refl. reflexivity. Qed.

Lemma lkey_eqb_eq k k' : lkey_eqb k k' = true -> k = k'.
Proof.
  destruct k as [[i b] e], k' as [[i' b'] e']. simpl. intros H.
  apply andb_true_iff in H. destruct H as [H He]. apply andb_true_iff in H. destruct H as [Hi Hb].
  apply Pos.eqb_eq in Hi. apply Z.eqb_eq in Hb. apply Z.eqb_eq in He. subst. reflexivity.
Qed.

Lemma lkey_eqb_sym k k' : lkey_eqb k k' = lkey_eqb k' k.
Proof.
  destruct (lkey_eqb k k') eqn:E.
  - apply lkey_eqb_eq in E. subst. symmetry. apply lkey_eqb_refl.
  - destruct (lkey_eqb k' k) eqn:E'; [|reflexivity].
    apply lkey_eqb_eq in E'. subst. rewrite lkey_eqb_refl in E. discriminate.
Qed.

Lemma bucket_add_same k body : forall acc, bucket k (add_loop k body acc) = bucket k acc ++ [body].
Proof.
  induction acc as [|[k' bs] r IH]; simpl.
  - rewrite lkey_eqb_refl. reflexivity.
  - destruct (lkey_eqb k k') eqn:E; simpl; rewrite E; [reflexivity | apply IH].
Qed.

Lemma bucket_add_other k k0 body : lkey_eqb k k0 = false ->
  forall acc, bucket k (add_loop k0 body acc) = bucket k acc.
Proof.
  intros Hne. induction acc as [|[k' bs] r IH]; simpl.
  - rewrite Hne. reflexivity.
  - destruct (lkey_eqb k0 k') eqn:E; simpl.
    + destruct (lkey_eqb k k') eqn:E'; [|reflexivity].
      apply lkey_eqb_eq in E, E'. subst. rewrite lkey_eqb_refl in Hne. discriminate.
    + destruct (lkey_eqb k k'); [reflexivity | apply IH].
Qed.

Lemma loop_buckets_gen k : forall l acc,
  bucket k (fold_left (fun acc st => match st with
                                     | SFor i b e body => add_loop (i, b, e) body acc
                                     | _ => acc
                                     end) l acc)
  = bucket k acc ++ bodies_with k l.
Proof.
  induction l as [|st l IH]; intros acc; simpl; [rewrite app_nil_r; reflexivity|].
  rewrite IH. destruct st as [| | | | |i b e body| |]; simpl; try reflexivity.
  destruct (lkey_eqb k (i, b, e)) eqn:E.
  - apply lkey_eqb_eq in E. subst. rewrite bucket_add_same, <- app_assoc. reflexivity.
  - rewrite bucket_add_other by exact E. reflexivity.
Qed.

(* for every range: the bodies collected for it are exactly the bodies of the loops of that range, in order *)
Theorem fuse_loops_collects_each_range k l : bucket k (loop_buckets l) = bodies_with k l.
Proof. unfold loop_buckets. rewrite loop_buckets_gen. reflexivity. Qed.

(* no two fused loops share a range *)
Lemma add_loop_keys k body : forall acc,
  NoDup (map fst acc) -> NoDup (map fst (add_loop k body acc))
  /\ (forall k', In k' (map fst (add_loop k body acc)) -> k' = k \/ In k' (map fst acc)).
Proof.
  induction acc as [|[k' bs] r IH]; simpl; intros Hnd.
  - split; [constructor; [intros []|constructor] | intros k' [<-|[]]; auto].
  - inversion Hnd as [|? ? Hnin Hnd']; subst.
    destruct (lkey_eqb k k') eqn:E; simpl.
    + split; [constructor; assumption | intros k'' H; right; exact H].
    + destruct (IH Hnd') as [IH1 IH2]. split.
      * constructor; [|exact IH1]. intros Hin. destruct (IH2 _ Hin) as [->|Hin'].
        -- rewrite lkey_eqb_refl in E. discriminate.
        -- exact (Hnin Hin').
      * intros k'' [<-|Hin]; [right; left; reflexivity|].
        destruct (IH2 _ Hin) as [->|Hin']; [left; reflexivity | right; right; exact Hin'].
Qed.

Theorem fuse_loops_ranges_distinct l : NoDup (map fst (loop_buckets l)).
Proof.
  unfold loop_buckets.
  assert (G : forall l acc, NoDup (map fst acc) ->
            NoDup (map fst (fold_left (fun acc st => match st with
                                                     | SFor i b e body => add_loop (i, b, e) body acc
                                                     | _ => acc end) l acc))).
  { induction l0 as [|st l0 IH]; intros acc Hnd; simpl; [exact Hnd|].
    apply IH. destruct st; try exact Hnd. apply add_loop_keys. exact Hnd. }
  apply G. constructor.
Qed.

(* the statements that are not loops stay, in order, in front; the section's name and declarations stay *)
Theorem fuse_loops_shape s :
  sstmts (fuse_loops s)
  = map norm1 (filter (fun st => negb (is_for st)) (sstmts s)) ++ map mk_loop (loop_buckets (sstmts s))
  /\ sdecls (fuse_loops s) = sdecls s /\ sname (fuse_loops s) = sname s /\ sannots (fuse_loops s) = [].
Proof. repeat split. Qed.

(* ------------------------------------------------------------------ *)
(* licm: the split of a product *)

Lemma split_args_perm i : forall args keep hoist,
  split_args i args = Some (keep, hoist) -> Permutation args (keep ++ hoist).
Proof.
  induction args as [|a r IH]; simpl; intros keep hoist H.
  - inversion H; subst. constructor.
  - destruct (check_dependency i a) as [d|]; [|discriminate].
    destruct (split_args i r) as [[k h]|]; [|discriminate].
    specialize (IH k h eq_refl).
    destruct d; inversion H; subst; simpl.
    + constructor. exact IH.
    + apply Permutation_cons_app. exact IH.
Qed.

(* what is hoisted does not mention the inner index at the positions check_dependency looks at,
   what is kept does *)
Lemma split_args_sound i : forall args keep hoist,
  split_args i args = Some (keep, hoist) ->
  Forall (fun a => check_dependency i a = Some true) keep
  /\ Forall (fun a => check_dependency i a = Some false) hoist.
Proof.
  induction args as [|a r IH]; simpl; intros keep hoist H.
  - inversion H; subst. split; constructor.
  - destruct (check_dependency i a) as [d|] eqn:E; [|discriminate].
    destruct (split_args i r) as [[k h]|]; [|discriminate].
    destruct (IH k h eq_refl) as [Hk Hh].
    destruct d; inversion H; subst; split; try constructor; assumption.
Qed.

Section Monoid.
Variable M : Type.
Variable mul : M -> M -> M.
Variable one : M.
Hypothesis mul_comm : forall a b, mul a b = mul b a.
Hypothesis mul_assoc : forall a b c, mul (mul a b) c = mul a (mul b c).
Hypothesis mul_1_l : forall a, mul one a = a.

Definition prod (l : list M) : M := fold_right mul one l.

Lemma prod_app l1 l2 : prod (l1 ++ l2) = mul (prod l1) (prod l2).
Proof.
  induction l1 as [|a l1 IH]; simpl; [rewrite mul_1_l; reflexivity|].
  rewrite IH, mul_assoc. reflexivity.
Qed.

Lemma prod_perm l1 l2 : Permutation l1 l2 -> prod l1 = prod l2.
Proof.
  induction 1 as [|x l l' H IH|x y l|l l' l'' H1 IH1 H2 IH2]; simpl.
  - reflexivity.
  - rewrite IH. reflexivity.
  - rewrite <- !mul_assoc, (mul_comm y x). reflexivity.
  - rewrite IH1. exact IH2.
Qed.

(* value of the rewritten product, with the temporary holding the hoisted product *)
Theorem licm_product_value (den : expr -> M) i args keep hoist (tmp : M) :
  split_args i args = Some (keep, hoist) ->
  tmp = prod (map den hoist) ->
  prod (map den keep ++ [tmp]) = prod (map den args).
Proof.
  intros Hs ->. rewrite prod_app. simpl.
  rewrite (mul_comm (prod (map den hoist)) one), mul_1_l.
  rewrite <- prod_app, <- map_app.
  apply prod_perm. apply Permutation_map. symmetry. apply split_args_perm with (i := i). exact Hs.
Qed.

End Monoid.

(* ------------------------------------------------------------------ *)
(* optimize leaves code without sections alone *)

Lemma opt_map_id_stmts temps : forall code,
  Forall (fun it => match it with IStmt _ => True | ISec _ => False end) code ->
  opt_map (opt_item temps) code = Some code.
Proof.
  induction 1 as [|it r Hit Hr IH]; simpl; [reflexivity|].
  destruct it as [s|s]; [|contradiction]. simpl. rewrite IH. reflexivity.
Qed.

Lemma no_sections_named n code :
  Forall (fun it => match it with IStmt _ => True | ISec _ => False end) code ->
  named_sections n code = [].
Proof.
  unfold named_sections. induction 1 as [|it r Hit Hr IH]; simpl; [reflexivity|].
  destruct it; [exact IH | contradiction].
Qed.

Theorem optimize_without_sections temps code :
  Forall (fun it => match it with IStmt _ => True | ISec _ => False end) code ->
  optimize temps code = Some code.
Proof.
  intros H. unfold optimize.
  rewrite (fuse_sections_without_match code "Coefficient" (no_sections_named _ _ H)).
  rewrite (fuse_sections_without_match code "Jacobian" (no_sections_named _ _ H)).
  apply opt_map_id_stmts. exact H.
Qed.
