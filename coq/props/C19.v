(* C19 — accepted input yields valid C.
   (1) Scoping, per exported kernel: the checker's [fresh] test rejects a second
       declaration of a name in one C scope, a use before the declaration and
       a use after the enclosing block ended (the exporter resolves names the
       way C does: legal shadowing gets a fresh identifier).  The theorem is
       the same progress theorem as C08: an accepted kernel never traps.
   (2) Rule identifiers: exhaustively over the table generated from /repo
       (cells x degrees 0..30 x schemes x polyset types x vertex scheme), two
       rules on the same integration cell with the same identifier have the
       same points (same SHA-1). *)
From Coq Require Import NArith ZArith List String.
From FFCX Require Import LN Check SoundExpr SoundStmt KernelProps RuleIds.
From FFCXGen Require Import Rules.

Theorem C19_accepted_kernel_is_well_scoped_and_typed :
  forall (T : Type) (of_Z : Z -> T) (of_lit : Z -> Z -> T) (of_clit : Z -> Z -> Z -> Z -> T)
         (tadd tsub tmul tdiv : T -> T -> T) (tneg : T -> T) (teqb tltb tleb : T -> T -> bool)
         (tfn : string -> list T -> T)
         (ic : ictx) (nA : Z) (body : list stmt) (inp : inputs T) (A0 : list (val T)),
    check_kernel ic nA body = true ->
    inp_ok T ic inp -> A_ok T nA A0 ->
    exists A1,
      run_kernel T of_Z of_lit of_clit tadd tsub tmul tdiv tneg teqb tltb tleb tfn inp body A0
      = Some A1 /\ A_ok T nA A1.
Proof. exact kernel_safe. Qed.
Print Assumptions C19_accepted_kernel_is_well_scoped_and_typed.

Theorem C19_rule_ids_separate_point_sets :
  forall cell g r1 r2,
    In (cell, g) rule_groups -> In r1 g -> In r2 g -> rid r1 = rid r2 -> dig r1 = dig r2.
Proof. apply groups_ok_spec. vm_compute. reflexivity. Qed.
Print Assumptions C19_rule_ids_separate_point_sets.
