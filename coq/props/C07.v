(* C07 — kernels accumulate into A and are pure functions of their inputs.
   For a kernel on which [accum_only_list] evaluates to true (A is never read,
   written only by '+='; nothing else is named A), in any numeric domain with
   associative addition and right identity 0:
       run(A0) = A0 (+) D   where D = run(0) depends on the inputs only.
   Inputs and const tables are never written: that is part of check_kernel
   (C08 theorem: a write to an input or to a read-only cell is a trap).
   The model has no state besides its arguments, so "no dependence on earlier
   calls" is the statement that run_kernel is a function. *)
From Coq Require Import ZArith List String.
From FFCX Require Import LN Check Accum.

Theorem C07_kernel_adds_input_only_tensor :
  forall (T : Type) (of_Z : Z -> T) (of_lit : Z -> Z -> T) (of_clit : Z -> Z -> Z -> Z -> T)
         (tadd tsub tmul tdiv : T -> T -> T) (tneg : T -> T) (teqb tltb tleb : T -> T -> bool)
         (tfn : string -> list T -> T),
    (forall a b c, tadd (tadd a b) c = tadd a (tadd b c)) ->
    (forall a, tadd a (of_Z 0) = a) ->
    forall (inp : inputs T) (body : list stmt) (A0 : list T) (A1 : list (val T)),
      accum_only_list body = true ->
      run_kernel T of_Z of_lit of_clit tadd tsub tmul tdiv tneg teqb tltb tleb tfn inp body
                 (vf_list T A0) = Some A1 ->
      exists D,
        run_kernel T of_Z of_lit of_clit tadd tsub tmul tdiv tneg teqb tltb tleb tfn inp body
                   (vf_list T (zeros T of_Z (List.length A0))) = Some (vf_list T D) /\
        List.length D = List.length A0 /\
        A1 = vf_list T (map (fun p => tadd (fst p) (snd p)) (combine A0 D)).
Proof. exact kernel_accumulates. Qed.
Print Assumptions C07_kernel_adds_input_only_tensor.
