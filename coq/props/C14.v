(* C14 — concurrent JIT requests on a shared cache: for ANY number of requests and ANY
   interleaving of their file-system steps, with a failure at every step that can fail and a kill
   anywhere, Jit.v's transition system satisfies the statements below.  JitGen.restore_on_fault and
   JitGen.atomic_marker are read off jit.py on every run (the ready marker is published in one atomic
   step after its content was written). *)
From Coq Require Import List Arith.
From FFCX Require Import Jit.
From FFCXGen Require Import JitGen.

Theorem C14_mutual_exclusion :
  forall timeout es,
    builders (s_procs (run timeout restore_on_fault atomic_marker init es)) <= 1.
Proof. intros. apply mutual_exclusion_any_trace. vm_compute. reflexivity. Qed.
Print Assumptions C14_mutual_exclusion.

Theorem C14_never_a_partial_module :
  forall timeout es p,
    In p (s_procs (run timeout restore_on_fault atomic_marker init es)) -> p_pc p <> Done LoadedPartial.
Proof. intros timeout es p. apply no_partial_load_any_trace. vm_compute. reflexivity. Qed.
Print Assumptions C14_never_a_partial_module.

Theorem C14_marker_means_complete :
  forall timeout es,
    f_cached (s_fs (run timeout restore_on_fault atomic_marker init es)) = true ->
    f_c (s_fs (run timeout restore_on_fault atomic_marker init es)) = true /\
    f_so (s_fs (run timeout restore_on_fault atomic_marker init es)) = SoComplete.
Proof. intros timeout es. apply marker_means_complete_any_trace. vm_compute. reflexivity. Qed.
Print Assumptions C14_marker_means_complete.

(* the same three statements for either shape of the marker step and of the handler restoration,
   on traces without a fault in the window an empty-then-filled marker opens *)
Theorem C14_safety_on_good_traces :
  forall timeout restore atomic es,
    good_trace timeout restore atomic init es ->
    builders (s_procs (run timeout restore atomic init es)) <= 1 /\
    (forall p, In p (s_procs (run timeout restore atomic init es)) -> p_pc p <> Done LoadedPartial) /\
    (f_cached (s_fs (run timeout restore atomic init es)) = true ->
     f_c (s_fs (run timeout restore atomic init es)) = true /\ f_so (s_fs (run timeout restore atomic init es)) = SoComplete).
Proof.
  intros timeout restore atomic es Hg. split; [|split].
  - apply mutual_exclusion; exact Hg.
  - intros p. apply no_partial_load; exact Hg.
  - apply marker_means_complete; exact Hg.
Qed.
Print Assumptions C14_safety_on_good_traces.

Theorem C14_exactly_one_compile :
  forall timeout restore atomic es, no_fault_trace es -> s_compiles (run timeout restore atomic init es) <= 1.
Proof. exact single_compile. Qed.
Print Assumptions C14_exactly_one_compile.

Theorem C14_reuse_without_recompiling :
  forall timeout restore atomic f sw,
    0 < timeout -> f_c f = true -> f_cached f = true -> f_so f = SoComplete ->
    step_proc timeout restore atomic f {| p_pc := R2; p_swapped := sw |} Normal = Some (f, {| p_pc := W 0; p_swapped := sw |}, false) /\
    step_proc timeout restore atomic f {| p_pc := W 0; p_swapped := sw |} Normal = Some (f, {| p_pc := WL; p_swapped := sw |}, false) /\
    step_proc timeout restore atomic f {| p_pc := WL; p_swapped := sw |} Normal = Some (f, {| p_pc := Done Loaded; p_swapped := sw |}, false).
Proof. exact reuse. Qed.
Print Assumptions C14_reuse_without_recompiling.
