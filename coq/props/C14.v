(* C14 — concurrent JIT requests on a shared cache: for ANY number of requests and ANY
   interleaving of their file-system steps (kills allowed, no fault in the window after the
   marker was created), Jit.v's transition system satisfies: *)
From Coq Require Import List Arith.
From FFCX Require Import Jit.

Theorem C14_mutual_exclusion :
  forall timeout restore es,
    good_trace timeout restore (init) es ->
    builders (s_procs (run timeout restore init es)) <= 1.
Proof. exact mutual_exclusion. Qed.
Print Assumptions C14_mutual_exclusion.

Theorem C14_never_a_partial_module :
  forall timeout restore es p,
    good_trace timeout restore init es ->
    In p (s_procs (run timeout restore init es)) -> p_pc p <> Done LoadedPartial.
Proof. exact no_partial_load. Qed.
Print Assumptions C14_never_a_partial_module.

Theorem C14_marker_means_complete :
  forall timeout restore es,
    good_trace timeout restore init es ->
    f_cached (s_fs (run timeout restore init es)) = true ->
    f_c (s_fs (run timeout restore init es)) = true /\ f_so (s_fs (run timeout restore init es)) = SoComplete.
Proof. exact marker_means_complete. Qed.
Print Assumptions C14_marker_means_complete.

Theorem C14_exactly_one_compile :
  forall timeout restore es, no_fault_trace es -> s_compiles (run timeout restore init es) <= 1.
Proof. exact single_compile. Qed.
Print Assumptions C14_exactly_one_compile.

Theorem C14_reuse_without_recompiling :
  forall timeout restore f sw,
    0 < timeout -> f_c f = true -> f_cached f = true -> f_so f = SoComplete ->
    step_proc timeout restore f {| p_pc := R2; p_swapped := sw |} Normal = Some (f, {| p_pc := W 0; p_swapped := sw |}, false) /\
    step_proc timeout restore f {| p_pc := W 0; p_swapped := sw |} Normal = Some (f, {| p_pc := WL; p_swapped := sw |}, false) /\
    step_proc timeout restore f {| p_pc := WL; p_swapped := sw |} Normal = Some (f, {| p_pc := Done Loaded; p_swapped := sw |}, false).
Proof. exact reuse. Qed.
Print Assumptions C14_reuse_without_recompiling.
