(* C15 — failures and kills.  Every trace is covered: a kill of any process at any point and a
   failure at every step that can fail (code generation, compile, link, writing the build log,
   publishing the marker).  JitGen.restore_on_fault and JitGen.atomic_marker are read off jit.py on
   every run; with the marker created empty and then filled (the code before fix 'publish the
   ready marker atomically') the first statement is false: Jit.marker_window_refuted. *)
From Coq Require Import List Arith.
From FFCX Require Import Jit.
From FFCXGen Require Import JitGen.

Theorem C15_no_partial_load_after_any_kill_or_failure :
  forall timeout es p,
    In p (s_procs (run timeout restore_on_fault atomic_marker init es)) -> p_pc p <> Done LoadedPartial.
Proof. intros timeout es p. apply no_partial_load_any_trace. vm_compute. reflexivity. Qed.
Print Assumptions C15_no_partial_load_after_any_kill_or_failure.

(* a marker left behind by whatever happened always stands for a complete module under a held lock *)
Theorem C15_marker_never_survives_without_a_complete_module :
  forall timeout es,
    f_cached (s_fs (run timeout restore_on_fault atomic_marker init es)) = true ->
    f_c (s_fs (run timeout restore_on_fault atomic_marker init es)) = true /\
    f_so (s_fs (run timeout restore_on_fault atomic_marker init es)) = SoComplete.
Proof. intros timeout es. apply marker_means_complete_any_trace. vm_compute. reflexivity. Qed.
Print Assumptions C15_marker_never_survives_without_a_complete_module.

Theorem C15_failed_build_releases_the_lock :
  forall timeout f sw,
    f_c f = true ->
    exists f', step_proc timeout restore_on_fault atomic_marker f {| p_pc := BX; p_swapped := sw |} Normal
               = Some (f', {| p_pc := Done RaisedBuild; p_swapped := sw |}, false) /\
               f_c f' = false /\ f_failed f' = true /\
               step_proc timeout restore_on_fault atomic_marker f' {| p_pc := R2; p_swapped := false |} Normal
               = Some (set_c f' true, {| p_pc := B1; p_swapped := false |}, false).
Proof. intros. apply fail_releases_lock. assumption. Qed.
Print Assumptions C15_failed_build_releases_the_lock.

(* process-global state: the root logger handlers are swapped only inside the compile; every
   request that returns or raises has them restored (all traces, all faults, all kills) *)
Theorem C15_handlers_restored :
  forall timeout es, Forall hok (s_procs (run timeout restore_on_fault atomic_marker init es)).
Proof. intros. apply handlers_restored. vm_compute. reflexivity. Qed.
Print Assumptions C15_handlers_restored.
