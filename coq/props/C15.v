(* C15 — failures and kills.  [good_trace] admits a kill of any process at any point and a
   fault at every failing step except while the build log is written into the already created
   marker (refuted there: Jit.marker_window_refuted).  JitGen.restore_on_fault is read off
   jit.py on every run. *)
From Coq Require Import List Arith.
From FFCX Require Import Jit.
From FFCXGen Require Import JitGen.

Theorem C15_no_partial_load_after_any_kill_or_failure :
  forall timeout es p,
    good_trace timeout restore_on_fault init es ->
    In p (s_procs (run timeout restore_on_fault init es)) -> p_pc p <> Done LoadedPartial.
Proof. intros. eapply no_partial_load; eauto. Qed.
Print Assumptions C15_no_partial_load_after_any_kill_or_failure.

Theorem C15_failed_build_releases_the_lock :
  forall timeout f sw,
    f_c f = true ->
    exists f', step_proc timeout restore_on_fault f {| p_pc := BX; p_swapped := sw |} Normal
               = Some (f', {| p_pc := Done RaisedBuild; p_swapped := sw |}, false) /\
               f_c f' = false /\ f_failed f' = true /\
               step_proc timeout restore_on_fault f' {| p_pc := R2; p_swapped := false |} Normal
               = Some (set_c f' true, {| p_pc := B1; p_swapped := false |}, false).
Proof. intros. apply fail_releases_lock. assumption. Qed.
Print Assumptions C15_failed_build_releases_the_lock.

(* process-global state: the root logger handlers are swapped only inside the compile; every
   request that returns or raises has them restored (all traces, all faults, all kills) *)
Theorem C15_handlers_restored :
  forall timeout es, Forall hok (s_procs (run timeout restore_on_fault init es)).
Proof. intros. apply handlers_restored. vm_compute. reflexivity. Qed.
Print Assumptions C15_handlers_restored.
