(* C04 — expression kernels: A[point][component][argument dof] is addressed through
   MultiIndex([iq, comp, dof], [num_points, components, dofs]); the printed stride expression is
   the row-major position documented in ufcx.h and positions of distinct (point, component, dof)
   never coincide.  The values are decided by the oracle per sampled expression. *)
From Coq Require Import ZArith List.
From FFCX Require Import Flatten.
Import ListNotations.

Theorem C04_expression_index_is_row_major :
  forall npts ncomp ndofs q c d,
    horner [npts; ncomp; ndofs] [q; c; d] 0 = (q * (ncomp * (ndofs * 1)) + (c * (ndofs * 1) + (d * 1 + 0)))%Z.
Proof. intros. rewrite global_index_is_row_major by reflexivity. reflexivity. Qed.
Print Assumptions C04_expression_index_is_row_major.

Theorem C04_expression_entries_do_not_alias :
  forall shape i1 i2, in_range shape i1 -> in_range shape i2 -> strided shape i1 = strided shape i2 -> i1 = i2.
Proof. exact strided_injective. Qed.
Print Assumptions C04_expression_entries_do_not_alias.

Theorem C04_expression_entries_in_range :
  forall shape idx, in_range shape idx -> (0 <= strided shape idx < prodZ shape)%Z.
Proof. exact strided_bounds. Qed.
Print Assumptions C04_expression_entries_in_range.
