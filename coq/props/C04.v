(* C04 — expression kernels: A[point][component][argument dof] is addressed through
   MultiIndex([iq, comp, dof], [num_points, components, dofs]); the printed stride expression is
   the row-major position documented in ufcx.h and positions of distinct (point, component, dof)
   never coincide.  The values are decided by the oracle per sampled expression. *)
From Coq Require Import ZArith List.
From FFCX Require Import Flatten.
Import ListNotations.

Theorem C04_expression_index_is_row_major :
  forall npts ncomp ndofs q c d,
    horner [npts; ncomp; ndofs] [q; c; d] 0 = (q * (ncomp * (ndofs * 1)) + (c * (ndofs * 1) + (d * 1 + 0)))%Z.
Proof. intros. rewrite global_index_is_row_major by reflexivity. reflexivity. Qed.
Print Assumptions C04_expression_index_is_row_major.

Theorem C04_expression_entries_do_not_alias :
  forall shape i1 i2, in_range shape i1 -> in_range shape i2 -> strided shape i1 = strided shape i2 -> i1 = i2.
Proof. exact strided_injective. Qed.
Print Assumptions C04_expression_entries_do_not_alias.

Theorem C04_expression_entries_in_range :
  forall shape idx, in_range shape idx -> (0 <= strided shape idx < prodZ shape)%Z.
Proof. exact strided_bounds. Qed.
Print Assumptions C04_expression_entries_in_range.

(* the index expression lnodes.MultiIndex builds (model MIdx.global_index over the overloads translated from the source,
   compared node by node with the real class by midxcorr.py) evaluates to that row-major position, in any numeric domain *)
From Coq Require Import String.
From FFCX Require Import LN MIdx.

Theorem C04_multiindex_expression_evaluates_to_the_row_major_position :
  forall (T : Type) (of_Z : Z -> T) (of_lit : Z -> Z -> T) (of_clit : Z -> Z -> Z -> Z -> T)
         (tadd tsub tmul tdiv : T -> T -> T) (tneg : T -> T) (teqb tltb tleb : T -> T -> bool)
         (tfn : string -> list T -> T) inp st sizes syms vs e,
    global_index sizes syms = Some e -> forallb idx_atom syms = true ->
    opt_map (@eval T of_Z of_lit of_clit tadd tsub tmul tdiv tneg teqb tltb tleb tfn inp st) syms = Some (map (fun v => VI v) vs) ->
    @eval T of_Z of_lit of_clit tadd tsub tmul tdiv tneg teqb tltb tleb tfn inp st e = Some (VI (strided sizes vs)).
Proof. intros. eapply global_index_value; eauto. Qed.
Print Assumptions C04_multiindex_expression_evaluates_to_the_row_major_position.

Example C04_multiindex_example :
  global_index [2; 3; 4]%Z [ESym 11%positive; ELitI 0; ESym 12%positive]
  = Some (ESum [EBin OMul (ELitI 12) (ESym 11%positive); ELitI 0; ESym 12%positive]).
Proof. reflexivity. Qed.
