(* C16 — formatted source means exactly what the code-generation AST says (C backend).
   fmtC is the token-level model of C/formatter.py's expression handlers, built on the
   precedence table and parenthesisation comparators regenerated from the source. *)
From Coq Require Import ZArith List String.
From FFCX Require Import LN Tok Fmt FmtSem.

(* every well-formed tree: the printed tokens derive, under the C grammar of Tok.v
   (C17 6.5), the tree [canon e] — same operator nesting, operands, subscripts *)
Theorem C16_printed_tokens_derive_the_tree :
  forall e, wfG e = true -> G (clev e) (fmtC e) (canon e).
Proof. exact fmtC_derives. Qed.
Print Assumptions C16_printed_tokens_derive_the_tree.

(* and the tree the C grammar reads has the value of the AST, in any numeric
   domain where a negative literal is the negation of its magnitude *)
Theorem C16_c_reading_has_the_same_value :
  forall (T : Type) (of_Z : Z -> T) (of_lit : Z -> Z -> T) (of_clit : Z -> Z -> Z -> Z -> T)
         (tadd tsub tmul tdiv : T -> T -> T) (tneg : T -> T) (teqb tltb tleb : T -> T -> bool)
         (tfn : string -> list T -> T),
    (forall m e, tneg (of_lit (- m) e) = of_lit m e) ->
    forall inp st e, no_clit e = true ->
      eval T of_Z of_lit of_clit tadd tsub tmul tdiv tneg teqb tltb tleb tfn inp st (canon e) =
      eval T of_Z of_lit of_clit tadd tsub tmul tdiv tneg teqb tltb tleb tfn inp st e.
Proof. exact canon_eval. Qed.
Print Assumptions C16_c_reading_has_the_same_value.

(* maximal munch: the only operator the printer glues to its operand is the prefix one;
   the formatter parenthesises an operand whose text starts with the same operator, so
   no "--" token can arise, for EVERY tree *)
Theorem C16_no_decrement_token : forall e, lex_safe e = true.
Proof. apply lex_safe_all. vm_compute. reflexivity. Qed.
Print Assumptions C16_no_decrement_token.

(* statement level: for EVERY statement tree whose expressions are well formed, the tokens C/formatter.py prints for it
   (model StmtFmt.fmtS, compared token by token with the real Formatter on every kernel of the corpus by stmtcorr.py)
   derive that tree under the statement grammar written from C17 6.7 / 6.8: declarations with initialiser lists,
   assignments and +=, for loops with their bounds, blocks, spliced statement lists *)
From FFCX Require Import StmtFmt.

Theorem C16_printed_statements_derive_the_tree :
  forall (tyname : dtype -> string) (nest : list Z -> list expr -> ini) s,
    wfS nest s = true -> GS tyname (fmtS tyname nest s) (canonS s).
Proof. exact fmtS_derives. Qed.
Print Assumptions C16_printed_statements_derive_the_tree.

Theorem C16_printed_initialisers_derive_the_nesting :
  forall i, wfI i = true -> GI (fmtI i) (canonI i).
Proof. exact fmtI_derives. Qed.
Print Assumptions C16_printed_initialisers_derive_the_nesting.
