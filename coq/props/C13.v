(* C13 — the text hashed by compute_signature (fields joined by ';', all but the last
   separator-free; object signatures concatenated fixed-length digests) determines every
   field, so equal pre-images mean equal forms / version / header / kind / tag; names are
   a prefix plus the digest, hence distinct for distinct pre-images where the digest is
   injective.  NamingGen.v records that naming.py still has that shape. *)
From Coq Require Import List Arith.
From FFCX Require Import Naming.
From FFCXGen Require Import NamingGen.

Theorem C13_preimage_determines_fields :
  forall (A : Type) (sep : A) (fs gs : list (list A)),
    length fs = length gs ->
    Forall (nosep A sep) (removelast fs) -> Forall (nosep A sep) (removelast gs) ->
    join A sep fs = join A sep gs -> fs = gs.
Proof. exact join_injective. Qed.
Print Assumptions C13_preimage_determines_fields.

Theorem C13_concatenated_digests_determine_the_objects :
  forall (A : Type) n (xs ys : list (list A)),
    0 < n -> Forall (fun s => length s = n) xs -> Forall (fun s => length s = n) ys ->
    concat xs = concat ys -> xs = ys.
Proof. exact concat_fixed_injective. Qed.
Print Assumptions C13_concatenated_digests_determine_the_objects.

Theorem C13_names_distinct_where_digest_injective :
  forall (A D : Type) (H : list A -> D) (P : list A -> Prop) prefix render,
    (forall x y, P x -> P y -> H x = H y -> x = y) ->
    (forall d e, render d = render e -> d = e) ->
    forall x y, P x -> P y -> name A D H prefix render x = name A D H prefix render y -> x = y.
Proof. exact names_distinct. Qed.
Print Assumptions C13_names_distinct_where_digest_injective.

Example C13_source_shape : sig_num_fields = 5 /\ sig_separator_code = 59.
Proof. split; reflexivity. Qed.
