(* C05 — the packing contract and enabled_coefficients are truthful.
   A kernel accepted under a contract whose allowed w-ranges are exactly the
   ranges of the ENABLED coefficients computes the same A from any two input
   memories that agree on the allowed cells: disabled coefficients (and
   everything else outside the contract) may hold anything. *)
From Coq Require Import ZArith List String.
From FFCX Require Import LN Check SoundExpr SoundStmt Mono KernelProps.

Theorem C05_result_independent_of_disallowed_input_cells :
  forall (T : Type) (of_Z : Z -> T) (of_lit : Z -> Z -> T) (of_clit : Z -> Z -> Z -> Z -> T)
         (tadd tsub tmul tdiv : T -> T -> T) (tneg : T -> T) (teqb tltb tleb : T -> T -> bool)
         (tfn : string -> list T -> T)
         (ic : ictx) (nA : Z) (body : list stmt) (i1 i2 : inputs T) (A0 : list (val T)),
    check_kernel ic nA body = true ->
    inp_ok T ic i1 -> agree_on_allowed T ic i1 i2 -> A_ok T nA A0 ->
    exists A1,
      run_kernel T of_Z of_lit of_clit tadd tsub tmul tdiv tneg teqb tltb tleb tfn i1 body A0 = Some A1 /\
      run_kernel T of_Z of_lit of_clit tadd tsub tmul tdiv tneg teqb tltb tleb tfn i2 body A0 = Some A1.
Proof. exact kernel_noninterference. Qed.
Print Assumptions C05_result_independent_of_disallowed_input_cells.
