(* C08 — kernels stay inside the extents the UFCx contract gives them.
   [check_kernel ic nA body] is evaluated by vm_compute on every exported
   kernel; this theorem turns a [true] verdict into a statement about ALL
   inputs, all loop iterations, all admissible entity / permutation values:
   execution under the trapping semantics of LN.v (any subscript outside a
   declared shape or outside the allowed index set of an input pointer is a
   trap) never traps, and A keeps its extent. *)
From Coq Require Import ZArith List String.
From FFCX Require Import LN Check SoundExpr SoundStmt KernelProps.

Theorem C08_accepted_kernel_never_leaves_extents :
  forall (T : Type) (of_Z : Z -> T) (of_lit : Z -> Z -> T) (of_clit : Z -> Z -> Z -> Z -> T)
         (tadd tsub tmul tdiv : T -> T -> T) (tneg : T -> T) (teqb tltb tleb : T -> T -> bool)
         (tfn : string -> list T -> T)
         (ic : ictx) (nA : Z) (body : list stmt) (inp : inputs T) (A0 : list (val T)),
    check_kernel ic nA body = true ->
    inp_ok T ic inp -> A_ok T nA A0 ->
    exists A1,
      run_kernel T of_Z of_lit of_clit tadd tsub tmul tdiv tneg teqb tltb tleb tfn inp body A0
      = Some A1 /\ A_ok T nA A1.
Proof. exact kernel_safe. Qed.
Print Assumptions C08_accepted_kernel_never_leaves_extents.

(* cell kernels: with zero-length entity / permutation arrays in the contract
   no index is allowed, so the theorem above holds for input memories in which
   those pointers are completely unmapped. *)
Theorem C08_cell_kernel_entity_pointer_unmapped :
  forall w c nx elo ehi np plo phi i,
    idx_allowed (mk_ictx w c nx 0 elo ehi np plo phi) id_e i = false.
Proof. exact no_entity_allowed. Qed.
Print Assumptions C08_cell_kernel_entity_pointer_unmapped.

Theorem C08_cell_kernel_perm_pointer_unmapped :
  forall w c nx ne elo ehi plo phi i,
    idx_allowed (mk_ictx w c nx ne elo ehi 0 plo phi) id_p i = false.
Proof. exact no_perm_allowed. Qed.
Print Assumptions C08_cell_kernel_perm_pointer_unmapped.
