(* C09 — scalar types: for every UFL math operator that lnodes emits and each of the four scalar
   types, the C function selected by the formatter's table (regenerated from the source) exists
   for the operand type; a complex operand never reaches a real-only function silently.
   Agreement of the four kernels with the form evaluated in (complex) arithmetic with the test
   function conjugated is decided by the oracle on sampled forms. *)
From Coq Require Import List String Bool.
From FFCX Require Import MathTab.
From FFCXGen Require Import MathTabGen.

Theorem C09_math_function_selected_for_operand_type :
  forall t name, In t scalar_types -> In name ufl_math_names -> entry_ok t name = true.
Proof. apply table_ok_spec. vm_compute. reflexivity. Qed.
Print Assumptions C09_math_function_selected_for_operand_type.
