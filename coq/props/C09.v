(* C09 — scalar types: for every UFL math operator that lnodes emits and each of the four scalar
   types, the C function selected by the formatter's table (regenerated from the source) exists
   for the operand type; a complex operand never reaches a real-only function silently.
   Agreement of the four kernels with the form evaluated in (complex) arithmetic with the test
   function conjugated is decided by the oracle on sampled forms. *)
From Coq Require Import List String Bool.
From FFCX Require Import MathTab.
From FFCXGen Require Import MathTabGen.

Theorem C09_math_function_selected_for_operand_type :
  forall t name, In t scalar_types -> In name ufl_math_names -> entry_ok t name = true.
Proof. apply table_ok_spec. vm_compute. reflexivity. Qed.
Print Assumptions C09_math_function_selected_for_operand_type.

(* sesquilinearity in the algebraic core: a conjugation around an argument-dependent subexpression is pushed onto the
   factors only, because argument values (basis functions) are real.  Stated for every commutative ring with an
   additive, multiplicative conjugation; instance of Fact.factorize_sound, tied to factorization.py by the exact
   correspondence runs of harness/factcorr.py on the complex-mode integrands. *)
From Coq Require Import List.
From FFCX Require Import Fact.

Theorem C09_conjugation_moves_to_the_factors :
  forall (R : Type) (r0 r1 : R) (radd rmul rsub : R -> R -> R) (ropp rinv rconj : R -> R),
    Ring_theory.ring_theory r0 r1 radd rmul rsub ropp eq ->
    (forall x y, rconj (radd x y) = radd (rconj x) (rconj y)) ->
    (forall x y, rconj (rmul x y) = rmul (rconj x) (rconj y)) ->
    rconj r0 = r0 -> rconj r1 = r1 ->
    forall (truth : R -> bool) (aval atom : nat -> R) (op1 : nat -> R -> R) (op2 : nat -> R -> R -> R),
    (forall i, rconj (aval i) = aval i) ->
    forall (argn : nat -> nat) (a : sx) (m : fac),
      wf argn a -> factorize (XConj a) = Some m -> m <> nil ->
      rconj (eval R r0 r1 radd rmul rinv rconj truth aval atom op1 op2 a) =
      fsum R r0 r1 radd rmul rinv rconj truth aval atom op1 op2 m.
Proof.
  intros R r0 r1 radd rmul rsub ropp rinv rconj Rth ca cm c0 c1 truth aval atom op1 op2 areal argn a m W H Hne.
  destruct (factorize_sound R r0 r1 radd rmul rsub ropp rinv rconj Rth ca cm c0 c1 truth aval atom op1 op2 areal argn (XConj a) m W H) as [_ E].
  apply E. destruct m; [contradiction|reflexivity].
Qed.
Print Assumptions C09_conjugation_moves_to_the_factors.
