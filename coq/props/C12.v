(* C12 — code generation is deterministic and history-independent.
   Every place in ffcx/ where a hash-ordered set or a process-global identifier could reach the
   generated text is listed in gen/SitesGen.v (regenerated from the source on every run); all of
   them are sorted, order-free or list-deduplications.  A sorted site gives the same list for any
   two enumerations of the same elements; order-free observations do not see the enumeration. *)
From Coq Require Import List String Permutation.
From FFCX Require Import Order.
From FFCXGen Require Import SitesGen.
Import ListNotations.

Theorem C12_no_site_leaks_hash_order_or_history :
  forall s k, In (s, k) sites -> site_ok k = true.
Proof.
  assert (H : forallb (fun p => site_ok (snd p)) sites = true) by (vm_compute; reflexivity).
  intros s k Hin. rewrite forallb_forall in H. exact (H (s, k) Hin).
Qed.
Print Assumptions C12_no_site_leaks_hash_order_or_history.

Theorem C12_sorted_sites_are_enumeration_independent :
  forall (A : Type) (key : A -> nat) (l1 l2 : list A),
    Permutation l1 l2 -> NoDup (map key l1) ->
    (forall a b, In a l1 -> In b l1 -> key a = key b -> a = b) ->
    isort A key l1 = isort A key l2.
Proof. exact sorted_site_deterministic. Qed.
Print Assumptions C12_sorted_sites_are_enumeration_independent.

Theorem C12_order_free_observations :
  forall (A : Type) (l1 l2 : list A) x, Permutation l1 l2 -> List.length l1 = List.length l2 /\ (In x l1 <-> In x l2).
Proof. intros A l1 l2 x P. split; [apply size_is_order_free; exact P | apply membership_is_order_free; exact P]. Qed.
Print Assumptions C12_order_free_observations.
