(* C01 — cell kernels compute the form's element tensor.
   The end-to-end statement is decided per sampled form by the independent oracle
   (harness/oracle.py); what is PROVED here are the index-layout facts the statement rests on:
   the printed stride expression of MultiIndex is the row-major position, which is a bijection
   from in-range multi-indices onto [0, prod sizes) (so A[i][j] of the property and A[flat] of
   the kernel are the same cell, and distinct (i,j) never alias), and the blocked layout.
   Per exported kernel the theorems of C05 C07 C08 C16 C17 C19 apply in addition. *)
From Coq Require Import ZArith List.
From FFCX Require Import Flatten.
Import ListNotations.

Theorem C01_global_index_is_row_major :
  forall shape idx, length shape = length idx -> horner shape idx 0 = strided shape idx.
Proof. exact global_index_is_row_major. Qed.
Print Assumptions C01_global_index_is_row_major.

Theorem C01_flat_position_in_range :
  forall shape idx, in_range shape idx -> (0 <= strided shape idx < prodZ shape)%Z.
Proof. exact strided_bounds. Qed.
Print Assumptions C01_flat_position_in_range.

Theorem C01_flat_position_injective :
  forall shape i1 i2, in_range shape i1 -> in_range shape i2 -> strided shape i1 = strided shape i2 -> i1 = i2.
Proof. exact strided_injective. Qed.
Print Assumptions C01_flat_position_injective.

Theorem C01_flat_position_surjective :
  forall shape k, Forall (fun n => (0 < n)%Z) shape -> (0 <= k < prodZ shape)%Z ->
                  exists idx, in_range shape idx /\ strided shape idx = k.
Proof. exact strided_surjective. Qed.
Print Assumptions C01_flat_position_surjective.

Theorem C01_blocked_dofs_do_not_alias :
  forall bs i1 c1 i2 c2, (0 <= c1 < bs)%Z -> (0 <= c2 < bs)%Z ->
                         (bs * i1 + c1 = bs * i2 + c2)%Z -> i1 = i2 /\ c1 = c2.
Proof. exact blocked_layout_bijective. Qed.
Print Assumptions C01_blocked_dofs_do_not_alias.

(* ---- the algebraic core of the pipeline: argument factorisation (ffcx/ir/analysis/factorization.py) ----
   For every scalar integrand that is multilinear in the sense UFL's arity checker enforces, in every
   commutative ring with a conjugation that fixes the argument values, the dictionary {argkey: factor} the
   handlers build has the value of the integrand:  integrand = sum_k factor_k * prod (arguments of k).
   The model is tied to the code by harness/factcorr.py (same integrands, exact values, every run). *)
From Coq Require Import Sorted.
From FFCX Require Import Fact.

Theorem C01_argument_factorisation_preserves_the_integrand :
  forall (R : Type) (r0 r1 : R) (radd rmul rsub : R -> R -> R) (ropp rinv rconj : R -> R),
    Ring_theory.ring_theory r0 r1 radd rmul rsub ropp eq ->
    (forall x y, rconj (radd x y) = radd (rconj x) (rconj y)) ->
    (forall x y, rconj (rmul x y) = rmul (rconj x) (rconj y)) ->
    rconj r0 = r0 -> rconj r1 = r1 ->
    forall (truth : R -> bool) (aval atom : nat -> R) (op1 : nat -> R -> R) (op2 : nat -> R -> R -> R),
    (forall i, rconj (aval i) = aval i) ->
    forall (argn : nat -> nat) (e : sx) (m : fac),
      wf argn e -> factorize e = Some m -> m <> [] ->
      eval R r0 r1 radd rmul rinv rconj truth aval atom op1 op2 e =
      fsum R r0 r1 radd rmul rinv rconj truth aval atom op1 op2 m.
Proof.
  intros R r0 r1 radd rmul rsub ropp rinv rconj Rth ca cm c0 c1 truth aval atom op1 op2 areal argn e m W H Hne.
  destruct (factorize_sound R r0 r1 radd rmul rsub ropp rinv rconj Rth ca cm c0 c1 truth aval atom op1 op2 areal argn e m W H) as [_ E].
  apply E. destruct m; [contradiction|reflexivity].
Qed.
Print Assumptions C01_argument_factorisation_preserves_the_integrand.

(* the same statement read as the property reads: with the test function replaced by basis function i and the trial
   function by basis function j (argument component a of argument number n takes the tabulated value tab a i resp.
   tab a j at the quadrature point), the integrand I(phi_i, psi_j) is the sum over argkeys of factor x table entries:
   what the generated block loops accumulate into A[i][j] *)
Theorem C01_integrand_at_basis_functions :
  forall (R : Type) (r0 r1 : R) (radd rmul rsub : R -> R -> R) (ropp rinv rconj : R -> R),
    Ring_theory.ring_theory r0 r1 radd rmul rsub ropp eq ->
    (forall x y, rconj (radd x y) = radd (rconj x) (rconj y)) ->
    (forall x y, rconj (rmul x y) = rmul (rconj x) (rconj y)) ->
    rconj r0 = r0 -> rconj r1 = r1 ->
    forall (truth : R -> bool) (atom : nat -> R) (op1 : nat -> R -> R) (op2 : nat -> R -> R -> R)
           (argn : nat -> nat) (tab : nat -> nat -> R),
    (forall a k, rconj (tab a k) = tab a k) ->
    forall (e : sx) (m : fac) (i j : nat),
      wf argn e -> factorize e = Some m -> m <> [] ->
      let basis := fun a => tab a (if Nat.eqb (argn a) 0 then i else j) in
      eval R r0 r1 radd rmul rinv rconj truth basis atom op1 op2 e =
      fsum R r0 r1 radd rmul rinv rconj truth basis atom op1 op2 m.
Proof.
  intros R r0 r1 radd rmul rsub ropp rinv rconj Rth ca cm c0 c1 truth atom op1 op2 argn tab treal e m i j W H Hne basis.
  eapply C01_argument_factorisation_preserves_the_integrand; eauto.
Qed.
Print Assumptions C01_integrand_at_basis_functions.

(* the dictionary has one entry per argkey, keys are sorted and mention only arguments of the integrand *)
Theorem C01_factorisation_keys_are_canonical :
  forall (argn : nat -> nat) (e : sx) (m : fac),
    wf argn e -> factorize e = Some m ->
    NoDup (map fst m) /\ (forall k, In k (map fst m) -> StronglySorted le k /\ forall i, In i k -> In (argn i) (nums argn e)).
Proof.
  intros argn e m W H.
  destruct (factorize_sound Z 0%Z 1%Z Z.add Z.mul Z.sub Z.opp (fun x => x) (fun x => x) Zth
              (fun _ _ => eq_refl) (fun _ _ => eq_refl) eq_refl eq_refl (fun _ => true) (fun _ => 0%Z) (fun _ => 0%Z)
              (fun _ x => x) (fun _ x _ => x) (fun _ => eq_refl) argn e m W H) as [[N [K _]] _].
  split; [exact N|exact K].
Qed.
Print Assumptions C01_factorisation_keys_are_canonical.

(* ---- element tables: classification, reduction and the index the generated code reads (Tab.v) ----
   TabGen.v is regenerated from ffcx/ir/elementtables.py and codegeneration/access.py on every run; the statements
   below say that what was read off the source is what the model has, and that under the model the value read for
   permutation slot 0 (cell and exterior-facet integrals) is within the table tolerances of the value it replaces,
   for every table, every shape and every in-range index. *)
From Coq Require Import QArith Qabs String.
From FFCX Require Import Tab.
From FFCXGen Require Import TabGen.

Theorem C01_table_types_that_drop_an_axis_are_the_modelled_ones :
  forall t, piecewise_tt t = name_in t gen_piecewise_ttypes /\ uniform_tt t = name_in t gen_uniform_ttypes.
Proof. intros t. destruct t; split; vm_compute; reflexivity. Qed.
Print Assumptions C01_table_types_that_drop_an_axis_are_the_modelled_ones.

Theorem C01_table_predicates_compare_the_modelled_slices :
  gen_is_piecewise = (["0"; ":"; "0"; ":"], ["0"; ":"; "i"; ":"], 2%nat)%string /\
  gen_is_uniform = (["0"; "0"; ":"; ":"], ["0"; "i"; ":"; ":"], 1%nat)%string /\
  gen_is_permuted_negated = (["0"; ":"; ":"; ":"], ["i"; ":"; ":"; ":"], 0%nat)%string.
Proof. repeat split; reflexivity. Qed.
Print Assumptions C01_table_predicates_compare_the_modelled_slices.

Theorem C01_reduced_table_is_read_inside_its_extent :
  forall rtol atol T p e q d, in_range T p e q d ->
    let '(T', t, perm) := reduce rtol atol T in
    in_range T' (if perm then p else 0%nat) (if uniform_tt t then 0%nat else e) (if piecewise_tt t then 0%nat else q) d.
Proof. exact access_index_in_range. Qed.
Print Assumptions C01_reduced_table_is_read_inside_its_extent.

Theorem C01_reduced_table_value_within_tolerance :
  forall rtol atol, (0 <= rtol)%Q -> (0 <= atol)%Q ->
  forall T e q d, in_range T 0 e q d ->
    (Qabs (val T 0 e q d - used (reduce rtol atol T) 0 e q d)
     <= 2 * atol + rtol * (Qabs (val T 0 e q d) + Qabs (val T 0 0 q d) + 1))%Q.
Proof. exact reduce_sound_perm0. Qed.
Print Assumptions C01_reduced_table_value_within_tolerance.

(* which operators may be applied to argument-dependent operands: exactly the five the model has handlers for
   (FactGen.v is regenerated from factorization.py; tr_fact also pins the text of the five handlers Fact.v mirrors);
   any other operator over an argument-dependent operand is refused, by the code and by the model *)
From FFCXGen Require Import FactGen.

Theorem C01_handled_operators_are_the_modelled_ones :
  handled_operators = ["Conditional"; "Conj"; "Division"; "Product"; "Sum"]%string.
Proof. reflexivity. Qed.
Print Assumptions C01_handled_operators_are_the_modelled_ones.

Theorem C01_other_operators_only_over_argument_free_operands :
  forall o a b m, (factorize (XOp1 o a) = Some m -> m = []) /\ (factorize (XOp2 o a b) = Some m -> m = []).
Proof.
  intros o a b m. split; simpl.
  - destruct (factorize a) as [fa|]; simpl; [|discriminate]. destruct (is_nil fa); [|discriminate]. intros H; injection H as <-; reflexivity.
  - destruct (factorize a) as [fa|]; simpl; [|discriminate]. destruct (factorize b) as [fb|]; simpl; [|discriminate].
    destruct (is_nil fa && is_nil fb); [|discriminate]. intros H; injection H as <-; reflexivity.
Qed.
Print Assumptions C01_other_operators_only_over_argument_free_operands.

(* the UFL operators of the scalar integrand become the LNodes nodes of the same meaning: the table
   lnodes._ufl_call_lookup is regenerated into gen/LookupGen.v by tr_lookup.py on every run *)
From FFCX Require Import LN LookupBase Lookup.

Theorem C01_comparison_operators_keep_their_meaning :
  forall (T : Type) (of_Z : Z -> T) (tadd tsub tmul tdiv : T -> T -> T) (teqb tltb tleb : T -> T -> bool),
    cmp_entry_ok T of_Z tadd tsub tmul tdiv teqb tltb tleb "LT" /\ cmp_entry_ok T of_Z tadd tsub tmul tdiv teqb tltb tleb "LE" /\
    cmp_entry_ok T of_Z tadd tsub tmul tdiv teqb tltb tleb "GT" /\ cmp_entry_ok T of_Z tadd tsub tmul tdiv teqb tltb tleb "GE" /\
    cmp_entry_ok T of_Z tadd tsub tmul tdiv teqb tltb tleb "EQ" /\ cmp_entry_ok T of_Z tadd tsub tmul tdiv teqb tltb tleb "NE".
Proof. exact comparisons_keep_their_meaning. Qed.
Print Assumptions C01_comparison_operators_keep_their_meaning.

Theorem C01_connectives_conditionals_arithmetic_and_functions_keep_their_meaning :
  forall (T : Type) (of_Z : Z -> T) (tadd tsub tmul tdiv : T -> T -> T) (teqb tltb tleb : T -> T -> bool),
    ((has "AndCondition" (Node "And" "01") = true /\
      forall p q, @arith T of_Z tadd tsub tmul tdiv teqb tltb tleb OAnd (VB p) (VB q) = Some (VB (andb p q))) /\
     (has "OrCondition" (Node "Or" "01") = true /\
      forall p q, @arith T of_Z tadd tsub tmul tdiv teqb tltb tleb OOr (VB p) (VB q) = Some (VB (orb p q))) /\
     has "NotCondition" (Node "Not" "0") = true /\ has "Conditional" (Node "Conditional" "012") = true) /\
    (has "Sum" (Ovl "Add" "01") = true /\ has "Product" (Ovl "Mul" "01") = true /\ has "Division" (Ovl "Div" "01") = true) /\
    forallb (fun u => has u MathFn) math_ops = true /\
    (has "IntValue" (Lit "LiteralInt(int(x))") = true /\ has "FloatValue" (Lit "LiteralFloat(float(x))") = true /\
     has "ComplexValue" (Lit "LiteralFloat(x.value())") = true /\ has "Zero" (Lit "LiteralFloat(0.0)") = true).
Proof.
  intros. split; [apply connectives_keep_their_meaning|]. split; [exact arithmetic_goes_through_the_overloads|].
  split; [exact math_functions_go_to_mathfunction | exact literals_keep_their_value].
Qed.
Print Assumptions C01_connectives_conditionals_arithmetic_and_functions_keep_their_meaning.

(* the component maps of the value numbering (ffcx/ir/analysis/indexing.py; model Indexing.v tied by idxcorr.py on every call
   made while the corpus is compiled): component p1 of  e1 = e2[multiindex]  is read from the component of e2 that the
   multi-index addresses under the values p1 of e1's free indices, and likewise for  e2 = as_tensor(e1, multiindex) *)
From FFCX Require Import Indexing.

Theorem C01_indexed_component_map_is_what_indexing_means :
  forall tsh1 tsh2 mi ind2to1 p1, Indexing.in_range tsh1 p1 ->
    nth (flatten p1 (strides tsh1)) (map_indexed tsh1 tsh2 mi ind2to1) 0%nat
    = flatten (p2_of mi ind2to1 p1) (strides tsh2).
Proof. exact map_indexed_spec. Qed.
Print Assumptions C01_indexed_component_map_is_what_indexing_means.

Theorem C01_component_tensor_map_is_what_as_tensor_means :
  forall tsh1 tsh2 p2to1 p2, Indexing.in_range tsh2 p2 ->
    nth (flatten p2 (strides tsh2)) (map_ct tsh1 tsh2 p2to1) 0%nat
    = flatten (p1_of (List.length tsh1) p2to1 p2) (strides tsh1).
Proof. exact map_ct_spec. Qed.
Print Assumptions C01_component_tensor_map_is_what_as_tensor_means.

Theorem C01_multi_indices_are_enumerated_row_major :
  forall shape p, Indexing.in_range shape p -> nth (flatten p (strides shape)) (enumerate shape) nil = p.
Proof. exact enumerate_is_row_major. Qed.
Print Assumptions C01_multi_indices_are_enumerated_row_major.

(* reconstruct.handle_index_sum: output component (pre = i, post = k) of an IndexSum sums exactly the d components of the
   summand that differ from it in the axis of the summation index *)
Theorem C01_index_sum_groups_the_components_along_the_summed_axis :
  forall predim d postdim i k, (i < predim)%nat -> (k < postdim)%nat ->
    nth (i * postdim + k) (index_sum_groups predim d postdim) nil
    = map (fun j => flatten (cons i (cons j (cons k nil))) (strides (cons predim (cons d (cons postdim nil))))) (seq 0 d).
Proof. exact index_sum_spec. Qed.
Print Assumptions C01_index_sum_groups_the_components_along_the_summed_axis.

(* reconstruct.handle_product with free indices on both operands: component `ind` of the product multiplies the components
   of the operands addressed by the values of their own free indices *)
Theorem C01_product_components_pair_the_operands_by_their_free_indices :
  forall fid fid0 fid1 indmap0 indmap1 ind, Indexing.in_range fid ind ->
    nth (flatten ind (strides fid)) (product_pairs fid fid0 fid1 indmap0 indmap1) (0%nat, 0%nat)
    = (flatten (pick ind indmap0) (strides fid0), flatten (pick ind indmap1) (strides fid1)).
Proof. exact product_pairs_spec. Qed.
Print Assumptions C01_product_components_pair_the_operands_by_their_free_indices.
