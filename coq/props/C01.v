(* C01 — cell kernels compute the form's element tensor.
   The end-to-end statement is decided per sampled form by the independent oracle
   (harness/oracle.py); what is PROVED here are the index-layout facts the statement rests on:
   the printed stride expression of MultiIndex is the row-major position, which is a bijection
   from in-range multi-indices onto [0, prod sizes) (so A[i][j] of the property and A[flat] of
   the kernel are the same cell, and distinct (i,j) never alias), and the blocked layout.
   Per exported kernel the theorems of C05 C07 C08 C16 C17 C19 apply in addition. *)
From Coq Require Import ZArith List.
From FFCX Require Import Flatten.
Import ListNotations.

Theorem C01_global_index_is_row_major :
  forall shape idx, length shape = length idx -> horner shape idx 0 = strided shape idx.
Proof. exact global_index_is_row_major. Qed.
Print Assumptions C01_global_index_is_row_major.

Theorem C01_flat_position_in_range :
  forall shape idx, in_range shape idx -> (0 <= strided shape idx < prodZ shape)%Z.
Proof. exact strided_bounds. Qed.
Print Assumptions C01_flat_position_in_range.

Theorem C01_flat_position_injective :
  forall shape i1 i2, in_range shape i1 -> in_range shape i2 -> strided shape i1 = strided shape i2 -> i1 = i2.
Proof. exact strided_injective. Qed.
Print Assumptions C01_flat_position_injective.

Theorem C01_flat_position_surjective :
  forall shape k, Forall (fun n => (0 < n)%Z) shape -> (0 <= k < prodZ shape)%Z ->
                  exists idx, in_range shape idx /\ strided shape idx = k.
Proof. exact strided_surjective. Qed.
Print Assumptions C01_flat_position_surjective.

Theorem C01_blocked_dofs_do_not_alias :
  forall bs i1 c1 i2 c2, (0 <= c1 < bs)%Z -> (0 <= c2 < bs)%Z ->
                         (bs * i1 + c1 = bs * i2 + c2)%Z -> i1 = i2 /\ c1 = c2.
Proof. exact blocked_layout_bijective. Qed.
Print Assumptions C01_blocked_dofs_do_not_alias.
