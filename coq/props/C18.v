(* C18 — the numba backend computes the same tensors as the C backend.
   Both backends format the SAME AST (captured once per kernel by the exporter) and share the
   precedence table; the comparators the numba formatter uses to decide on parentheses are
   regenerated from numba/formatter.py (gen/PrecGen.v).  They coincide with the C formatter's,
   for which Fmt.fmtC_derives proves that the printed tokens derive the canonical tree: the
   numba printer parenthesises exactly the same operand positions.  Python's binary arithmetic
   and comparison operators have the same relative precedence and associativity as C's; the
   operators that differ (not / and / or / conditional expression) are printed fully
   parenthesised or at the lowest levels.  Values are decided by executing both kernels on the
   same inputs (correspondence). *)
From Coq Require Import Arith Bool.
From FFCX Require Import LN Tok Fmt.
From FFCXGen Require Import PrecGen.

Theorem C18_numba_parenthesises_like_C :
  forall c p : nat,
    py_cmp_nary c p = c_cmp_nary c p /\ py_cmp_bin_l c p = c_cmp_bin_l c p /\ py_cmp_bin_r c p = c_cmp_bin_r c p /\
    py_cmp_cond_c c p = c_cmp_cond_c c p /\ py_cmp_cond_t c p = c_cmp_cond_t c p /\ py_cmp_cond_f c p = c_cmp_cond_f c p /\
    py_cmp_andor_l c p = c_cmp_andor_l c p /\ py_cmp_andor_r c p = c_cmp_andor_r c p /\ py_cmp_un c p = c_cmp_un c p.
Proof. intros c p. repeat split; reflexivity. Qed.
Print Assumptions C18_numba_parenthesises_like_C.

Theorem C18_shared_tree_derivation :
  forall e, wfG e = true -> G (clev e) (fmtC e) (canon e).
Proof. exact fmtC_derives. Qed.
Print Assumptions C18_shared_tree_derivation.

(* The numba printer proper: PyFmt.fmtPy models numba/formatter.py token for token (checked against the
   real Formatter on every run; handler shapes checked by tr_prec.py) with the comparators regenerated from
   the source.  For every tree FFCx can produce (no comparison directly under a comparison), the printed
   tokens derive, under a Python expression grammar written from the language reference, the canonical
   reading of the tree: precedence and associativity cannot change the meaning. *)
From FFCX Require Import PyFmt.

Theorem C18_numba_text_derives_the_tree_under_pythons_grammar :
  forall e, wfPy e = true -> GP (plev e) (fmtPy e) (pcanon e).
Proof. exact fmtPy_derives. Qed.
Print Assumptions C18_numba_text_derives_the_tree_under_pythons_grammar.
