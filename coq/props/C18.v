(* C18 — the numba backend computes the same tensors as the C backend.
   Both backends format the SAME AST (captured once per kernel by the exporter) and share the
   precedence table; the comparators the numba formatter uses to decide on parentheses are
   regenerated from numba/formatter.py (gen/PrecGen.v).  They coincide with the C formatter's,
   for which Fmt.fmtC_derives proves that the printed tokens derive the canonical tree: the
   numba printer parenthesises exactly the same operand positions.  Python's binary arithmetic
   and comparison operators have the same relative precedence and associativity as C's; the
   operators that differ (not / and / or / conditional expression) are printed fully
   parenthesised or at the lowest levels.  Values are decided by executing both kernels on the
   same inputs (correspondence). *)
From Coq Require Import Arith Bool.
From FFCX Require Import LN Tok Fmt.
From FFCXGen Require Import PrecGen.

Theorem C18_numba_parenthesises_like_C :
  forall c p : nat,
    py_cmp_nary c p = c_cmp_nary c p /\ py_cmp_bin_l c p = c_cmp_bin_l c p /\ py_cmp_bin_r c p = c_cmp_bin_r c p /\
    py_cmp_cond_c c p = c_cmp_cond_c c p /\ py_cmp_cond_t c p = c_cmp_cond_t c p /\ py_cmp_cond_f c p = c_cmp_cond_f c p /\
    py_cmp_andor_l c p = c_cmp_andor_l c p /\ py_cmp_andor_r c p = c_cmp_andor_r c p /\ py_cmp_un c p = c_cmp_un c p.
Proof. intros c p. repeat split; reflexivity. Qed.
Print Assumptions C18_numba_parenthesises_like_C.

Theorem C18_shared_tree_derivation :
  forall e, wfG e = true -> G (clev e) (fmtC e) (canon e).
Proof. exact fmtC_derives. Qed.
Print Assumptions C18_shared_tree_derivation.
