(* C03 — (flag half) a kernel accepted under a contract whose permutation array
   has length 0 computes the same A whatever the permutation argument holds:
   instance of the non-interference theorem, with [no_perm_allowed] showing
   that no cell of quadrature_permutation is an allowed read. *)
From Coq Require Import ZArith List String.
From FFCX Require Import LN Check SoundExpr SoundStmt Mono KernelProps.

Theorem C03_unflagged_kernel_ignores_permutation :
  forall (T : Type) (of_Z : Z -> T) (of_lit : Z -> Z -> T) (of_clit : Z -> Z -> Z -> Z -> T)
         (tadd tsub tmul tdiv : T -> T -> T) (tneg : T -> T) (teqb tltb tleb : T -> T -> bool)
         (tfn : string -> list T -> T)
         w c nx ne elo ehi plo phi (nA : Z) (body : list stmt) (i1 i2 : inputs T) (A0 : list (val T)),
    let ic := mk_ictx w c nx ne elo ehi 0 plo phi in
    check_kernel ic nA body = true ->
    inp_ok T ic i1 ->
    (forall a k, a <> id_p -> i1 a k = i2 a k) ->
    A_ok T nA A0 ->
    exists A1,
      run_kernel T of_Z of_lit of_clit tadd tsub tmul tdiv tneg teqb tltb tleb tfn i1 body A0 = Some A1 /\
      run_kernel T of_Z of_lit of_clit tadd tsub tmul tdiv tneg teqb tltb tleb tfn i2 body A0 = Some A1.
Proof.
  intros T of_Z of_lit of_clit tadd tsub tmul tdiv tneg teqb tltb tleb tfn
         w c nx ne elo ehi plo phi nA body i1 i2 A0 ic Hc Hok Hag HA.
  apply (kernel_noninterference T of_Z of_lit of_clit tadd tsub tmul tdiv tneg teqb tltb tleb tfn
           ic nA body i1 i2 A0 Hc Hok); [|exact HA].
  intros a k Hal. destruct (Pos.eq_dec a id_p) as [->|Hne]; [|apply Hag; exact Hne].
  unfold ic in Hal. rewrite no_perm_allowed in Hal. discriminate.
Qed.
Print Assumptions C03_unflagged_kernel_ignores_permutation.

(* Numbering-invariance half: FFCx's point permutations (regenerated: gen/PermGen.v) and the
   stacking order of the permuted tables.  Code c acts on the vertex shape functions of the
   reference facet by the permutation in the pinned tables; the tables are the whole symmetry
   group; hence for every relative numbering of a shared facet some code makes the physical
   points of both sides coincide at every quadrature point. *)
From Coq Require Import QArith List.
From FFCX Require Import Perm.
From FFCXGen Require Import PermGen.
Import ListNotations.

Theorem C03_triangle_code_acts_as_tabulated :
  forall c i x y, (c < 6)%nat -> (i < 3)%nat -> (N3 i (apply_triangle c (x, y)) == N3 (sig triangle_table c i) (x, y))%Q.
Proof. exact triangle_code_table. Qed.
Print Assumptions C03_triangle_code_acts_as_tabulated.

Theorem C03_quadrilateral_code_acts_as_tabulated :
  forall c i x y, (c < 8)%nat -> (i < 4)%nat -> (N4 i (apply_quadrilateral c (x, y)) == N4 (sig quadrilateral_table c i) (x, y))%Q.
Proof. exact quadrilateral_code_table. Qed.
Print Assumptions C03_quadrilateral_code_acts_as_tabulated.

Theorem C03_interval_code_acts_as_tabulated :
  forall c i x, (c < 2)%nat -> (i < 2)%nat -> (N2 i (apply_interval c x) == N2 (sig interval_table c i) x)%Q.
Proof. exact interval_code_table. Qed.
Print Assumptions C03_interval_code_acts_as_tabulated.

Theorem C03_triangle_facets_some_code_aligns_the_points :
  forall (X : nat -> Q) a b c, (a < 3)%nat -> (b < 3)%nat -> (c < 3)%nat -> distinct3 a b c = true ->
  exists code, (code < 6)%nat /\
    forall x y, (F3 (fun i => X (nth i [a; b; c] 0%nat)) (apply_triangle code (x, y)) == F3 X (x, y))%Q.
Proof. exact triangle_points_coincide_for_some_code. Qed.
Print Assumptions C03_triangle_facets_some_code_aligns_the_points.

Theorem C03_quadrilateral_facets_some_code_aligns_the_points :
  forall (X : nat -> Q) a b c d, (a < 4)%nat -> (b < 4)%nat -> (c < 4)%nat -> (d < 4)%nat -> square_symmetry [a; b; c; d] = true ->
  exists code, (code < 8)%nat /\
    forall x y, (F4 (fun i => X (nth i [a; b; c; d] 0%nat)) (apply_quadrilateral code (x, y)) == F4 X (x, y))%Q.
Proof. exact quadrilateral_points_coincide_for_some_code. Qed.
Print Assumptions C03_quadrilateral_facets_some_code_aligns_the_points.

Theorem C03_interval_facets_some_code_aligns_the_points :
  forall (X : nat -> Q) a b, (a < 2)%nat -> (b < 2)%nat -> a <> b ->
  exists code, (code < 2)%nat /\ forall x, (F2 (fun i => X (nth i [a; b] 0%nat)) (apply_interval code x) == F2 X x)%Q.
Proof. exact interval_points_coincide_for_some_code. Qed.
Print Assumptions C03_interval_facets_some_code_aligns_the_points.

(* ---- which tables keep their permutation axis (Tab.v; TabGen.v regenerated from elementtables.py) ----
   is_permuted_table compares the whole sub-table of every permutation slot with slot 0 (all entities, all points,
   all dofs): a table whose permutation axis is dropped is, within the tolerance, the same for every slot. *)
From Coq Require Import String Qabs.
From FFCX Require Import Tab.
From FFCXGen Require Import TabGen.

Theorem C03_permutation_axis_test_compares_whole_slots :
  gen_is_permuted_negated = (["0"; ":"; ":"; ":"], ["i"; ":"; ":"; ":"], 0%nat)%string.
Proof. reflexivity. Qed.
Print Assumptions C03_permutation_axis_test_compares_whole_slots.

Theorem C03_dropped_permutation_axis_means_equal_slots :
  forall rtol atol, (0 <= rtol)%Q -> (0 <= atol)%Q ->
  forall T, is_permuted rtol atol T = false ->
  forall p e q d, in_range T p e q d ->
    (Qabs (val T 0 e q d - val T p e q d) <= atol + rtol * Qabs (val T p e q d))%Q.
Proof. exact permuted_spec. Qed.
Print Assumptions C03_dropped_permutation_axis_means_equal_slots.
