(* C03 — (flag half) a kernel accepted under a contract whose permutation array
   has length 0 computes the same A whatever the permutation argument holds:
   instance of the non-interference theorem, with [no_perm_allowed] showing
   that no cell of quadrature_permutation is an allowed read. *)
From Coq Require Import ZArith List String.
From FFCX Require Import LN Check SoundExpr SoundStmt Mono KernelProps.

Theorem C03_unflagged_kernel_ignores_permutation :
  forall (T : Type) (of_Z : Z -> T) (of_lit : Z -> Z -> T) (of_clit : Z -> Z -> Z -> Z -> T)
         (tadd tsub tmul tdiv : T -> T -> T) (tneg : T -> T) (teqb tltb tleb : T -> T -> bool)
         (tfn : string -> list T -> T)
         w c nx ne elo ehi plo phi (nA : Z) (body : list stmt) (i1 i2 : inputs T) (A0 : list (val T)),
    let ic := mk_ictx w c nx ne elo ehi 0 plo phi in
    check_kernel ic nA body = true ->
    inp_ok T ic i1 ->
    (forall a k, a <> id_p -> i1 a k = i2 a k) ->
    A_ok T nA A0 ->
    exists A1,
      run_kernel T of_Z of_lit of_clit tadd tsub tmul tdiv tneg teqb tltb tleb tfn i1 body A0 = Some A1 /\
      run_kernel T of_Z of_lit of_clit tadd tsub tmul tdiv tneg teqb tltb tleb tfn i2 body A0 = Some A1.
Proof.
  intros T of_Z of_lit of_clit tadd tsub tmul tdiv tneg teqb tltb tleb tfn
         w c nx ne elo ehi plo phi nA body i1 i2 A0 ic Hc Hok Hag HA.
  apply (kernel_noninterference T of_Z of_lit of_clit tadd tsub tmul tdiv tneg teqb tltb tleb tfn
           ic nA body i1 i2 A0 Hc Hok); [|exact HA].
  intros a k Hal. destruct (Pos.eq_dec a id_p) as [->|Hne]; [|apply Hag; exact Hne].
  unfold ic in Hal. rewrite no_perm_allowed in Hal. discriminate.
Qed.
Print Assumptions C03_unflagged_kernel_ignores_permutation.
