(* C17 (first half) — building AST expressions through the overloaded operators
   (gen/SmartGen.v is translated from lnodes.py on every run) and through
   float_product yields a tree with the same numeric value as the unsimplified
   operation, for all operands and stores, in any commutative ring under of_Z.
   The optimiser passes are not covered by a theorem in this development. *)
From Coq Require Import ZArith List String.
From FFCX Require Import LN SmartBase Smart.
From FFCXGen Require Import SmartGen.

Theorem C17_overloads_preserve_values :
  forall (T : Type) (of_Z : Z -> T) (of_lit : Z -> Z -> T) (of_clit : Z -> Z -> Z -> Z -> T)
         (tadd tsub tmul tdiv : T -> T -> T) (tneg : T -> T) (teqb tltb tleb : T -> T -> bool)
         (tfn : string -> list T -> T),
    let zero := of_Z 0%Z in let one := of_Z 1%Z in
    (forall x, tadd zero x = x) -> (forall x, tadd x zero = x) ->
    (forall x, tsub zero x = tneg x) -> (forall x, tsub x zero = x) ->
    (forall x y, tadd x (tneg y) = tsub x y) -> (forall x y, tadd (tneg x) y = tsub y x) ->
    (forall x y, tsub x (tneg y) = tadd x y) ->
    (forall x, tmul zero x = zero) -> (forall x, tmul x zero = zero) ->
    (forall x, tmul one x = x) -> (forall x, tmul x one = x) ->
    (forall x, tmul (of_Z (-1)%Z) x = tneg x) -> (forall x, tmul x (of_Z (-1)%Z) = tneg x) ->
    (forall x, tdiv zero x = zero) ->
    (forall a b, of_Z (a + b)%Z = tadd (of_Z a) (of_Z b)) ->
    (forall a b, of_Z (a - b)%Z = tsub (of_Z a) (of_Z b)) ->
    (forall a b, of_Z (a * b)%Z = tmul (of_Z a) (of_Z b)) ->
    (forall a, of_Z (- a)%Z = tneg (of_Z a)) ->
    (forall z, of_lit z 0%Z = of_Z z) ->
    (forall m e, of_lit (- m)%Z e = tneg (of_lit m e)) ->
    (forall m e d, of_clit m e 0%Z d = of_lit m e) ->
    (forall a b c d, of_clit (- a)%Z b (- c)%Z d = tneg (of_clit a b c d)) ->
    let ev := eval T of_Z of_lit of_clit tadd tsub tmul tdiv tneg teqb tltb tleb tfn in
    let evT := evalT T of_Z of_lit of_clit tadd tsub tmul tdiv tneg teqb tltb tleb tfn in
    forall a b r inp st v x,
      to_T T of_Z v = Some x ->
      (neg_s a = Some r -> ev inp st (ENeg a) = Some v -> evT inp st r = Some x) /\
      (add_s a b = Some r -> ev inp st (EBin OAdd a b) = Some v -> evT inp st r = Some x) /\
      (radd_s a b = Some r -> ev inp st (EBin OAdd b a) = Some v -> evT inp st r = Some x) /\
      (sub_s a b = Some r -> ev inp st (EBin OSub a b) = Some v -> evT inp st r = Some x) /\
      (rsub_s a b = Some r -> ev inp st (EBin OSub b a) = Some v -> evT inp st r = Some x) /\
      (mul_s a b = Some r -> ev inp st (EBin OMul a b) = Some v -> evT inp st r = Some x) /\
      (rmul_s a b = Some r -> ev inp st (EBin OMul b a) = Some v -> evT inp st r = Some x) /\
      (div_s a b = Some r -> ev inp st (EBin ODiv a b) = Some v -> evT inp st r = Some x) /\
      (rdiv_s a b = Some r -> ev inp st (EBin ODiv b a) = Some v -> evT inp st r = Some x).
Proof.
  intros T of_Z of_lit of_clit tadd tsub tmul tdiv tneg teqb tltb tleb tfn zero one
         H1 H2 H3 H4 H5 H6 H7 H8 H9 H10 H11 H12 H13 H14 H15 H16 H17 H18 H19 H20 H21 H22
         ev evT a b r inp st v x Hx.
  repeat split; intros Hr E.
  - eapply neg_s_sound; eauto.
  - eapply add_s_sound; eauto.
  - eapply radd_s_sound; eauto.
  - eapply sub_s_sound; eauto.
  - eapply rsub_s_sound; eauto.
  - eapply mul_s_sound; eauto.
  - eapply rmul_s_sound; eauto.
  - eapply div_s_sound; eauto.
  - eapply rdiv_s_sound; eauto.
Qed.
Print Assumptions C17_overloads_preserve_values.
