(* C17 (first half) — building AST expressions through the overloaded operators
   (gen/SmartGen.v is translated from lnodes.py on every run) and through
   float_product yields a tree with the same numeric value as the unsimplified
   operation, for all operands and stores, in any commutative ring under of_Z.
   The optimiser passes are not covered by a theorem in this development. *)
From Coq Require Import ZArith List String.
From FFCX Require Import LN SmartBase Smart.
From FFCXGen Require Import SmartGen.

Theorem C17_overloads_preserve_values :
  forall (T : Type) (of_Z : Z -> T) (of_lit : Z -> Z -> T) (of_clit : Z -> Z -> Z -> Z -> T)
         (tadd tsub tmul tdiv : T -> T -> T) (tneg : T -> T) (teqb tltb tleb : T -> T -> bool)
         (tfn : string -> list T -> T),
    let zero := of_Z 0%Z in let one := of_Z 1%Z in
    (forall x, tadd zero x = x) -> (forall x, tadd x zero = x) ->
    (forall x, tsub zero x = tneg x) -> (forall x, tsub x zero = x) ->
    (forall x y, tadd x (tneg y) = tsub x y) -> (forall x y, tadd (tneg x) y = tsub y x) ->
    (forall x y, tsub x (tneg y) = tadd x y) ->
    (forall x, tmul zero x = zero) -> (forall x, tmul x zero = zero) ->
    (forall x, tmul one x = x) -> (forall x, tmul x one = x) ->
    (forall x, tmul (of_Z (-1)%Z) x = tneg x) -> (forall x, tmul x (of_Z (-1)%Z) = tneg x) ->
    (forall x, tdiv zero x = zero) ->
    (forall a b, of_Z (a + b)%Z = tadd (of_Z a) (of_Z b)) ->
    (forall a b, of_Z (a - b)%Z = tsub (of_Z a) (of_Z b)) ->
    (forall a b, of_Z (a * b)%Z = tmul (of_Z a) (of_Z b)) ->
    (forall a, of_Z (- a)%Z = tneg (of_Z a)) ->
    (forall z, of_lit z 0%Z = of_Z z) ->
    (forall m e, of_lit (- m)%Z e = tneg (of_lit m e)) ->
    (forall m e d, of_clit m e 0%Z d = of_lit m e) ->
    (forall a b c d, of_clit (- a)%Z b (- c)%Z d = tneg (of_clit a b c d)) ->
    let ev := eval T of_Z of_lit of_clit tadd tsub tmul tdiv tneg teqb tltb tleb tfn in
    let evT := evalT T of_Z of_lit of_clit tadd tsub tmul tdiv tneg teqb tltb tleb tfn in
    forall a b r inp st v x,
      to_T T of_Z v = Some x ->
      (neg_s a = Some r -> ev inp st (ENeg a) = Some v -> evT inp st r = Some x) /\
      (add_s a b = Some r -> ev inp st (EBin OAdd a b) = Some v -> evT inp st r = Some x) /\
      (radd_s a b = Some r -> ev inp st (EBin OAdd b a) = Some v -> evT inp st r = Some x) /\
      (sub_s a b = Some r -> ev inp st (EBin OSub a b) = Some v -> evT inp st r = Some x) /\
      (rsub_s a b = Some r -> ev inp st (EBin OSub b a) = Some v -> evT inp st r = Some x) /\
      (mul_s a b = Some r -> ev inp st (EBin OMul a b) = Some v -> evT inp st r = Some x) /\
      (rmul_s a b = Some r -> ev inp st (EBin OMul b a) = Some v -> evT inp st r = Some x) /\
      (div_s a b = Some r -> ev inp st (EBin ODiv a b) = Some v -> evT inp st r = Some x) /\
      (rdiv_s a b = Some r -> ev inp st (EBin ODiv b a) = Some v -> evT inp st r = Some x).
Proof.
  intros T of_Z of_lit of_clit tadd tsub tmul tdiv tneg teqb tltb tleb tfn zero one
         H1 H2 H3 H4 H5 H6 H7 H8 H9 H10 H11 H12 H13 H14 H15 H16 H17 H18 H19 H20 H21 H22
         ev evT a b r inp st v x Hx.
  repeat split; intros Hr E.
  - eapply neg_s_sound; eauto.
  - eapply add_s_sound; eauto.
  - eapply radd_s_sound; eauto.
  - eapply sub_s_sound; eauto.
  - eapply rsub_s_sound; eauto.
  - eapply mul_s_sound; eauto.
  - eapply rmul_s_sound; eauto.
  - eapply div_s_sound; eauto.
  - eapply rdiv_s_sound; eauto.
Qed.
Print Assumptions C17_overloads_preserve_values.

(* Optimiser half, per kernel pair: the kernel generated with the passes and the one generated
   without are executed symbolically; if SymEq.kernels_equiv computes true (done by vm_compute
   for every exported pair and every admissible entity/permutation value) then, for ALL values of
   the real inputs and all interpretations of literals, division and math functions over the
   integers with ring operations, both kernels run and return the same tensor.  A polynomial
   identity that holds for all integer values holds in every commutative ring. *)
From Coq Require Import ZArith List String.
From FFCX Require Import LN Sym SymEq.

Theorem C17_symbolically_equal_kernels_compute_the_same_tensor :
  forall (of_lit : Z -> Z -> Z) (of_clit : Z -> Z -> Z -> Z -> Z) (tdiv : Z -> Z -> Z)
         (teqb tltb tleb : Z -> Z -> bool) (tfn : string -> list Z -> Z) (rho : ident -> Z -> Z)
         (inp : @inputs sx) (k1 k2 : list stmt) (A0 : list (@val sx)),
    kernels_equiv inp k1 k2 A0 = true ->
    exists r,
      @run_kernel Z (fun z => z) of_lit of_clit Z.add Z.sub Z.mul tdiv Z.opp teqb tltb tleb tfn
        (imap Z (fun z => z) of_lit of_clit Z.add Z.sub Z.mul tdiv Z.opp tfn rho inp) k1
        (map (vmap Z (fun z => z) of_lit of_clit Z.add Z.sub Z.mul tdiv Z.opp tfn rho) A0) = Some r /\
      @run_kernel Z (fun z => z) of_lit of_clit Z.add Z.sub Z.mul tdiv Z.opp teqb tltb tleb tfn
        (imap Z (fun z => z) of_lit of_clit Z.add Z.sub Z.mul tdiv Z.opp tfn rho inp) k2
        (map (vmap Z (fun z => z) of_lit of_clit Z.add Z.sub Z.mul tdiv Z.opp tfn rho) A0) = Some r.
Proof. exact kernels_equiv_sound. Qed.
Print Assumptions C17_symbolically_equal_kernels_compute_the_same_tensor.

(* the symbolic run is faithful in every numeric domain (homomorphism) *)
Theorem C17_symbolic_execution_is_faithful :
  forall (T : Type) (of_Z : Z -> T) (of_lit : Z -> Z -> T) (of_clit : Z -> Z -> Z -> Z -> T)
         (tadd tsub tmul tdiv : T -> T -> T) (tneg : T -> T) (teqb tltb tleb : T -> T -> bool)
         (tfn : string -> list T -> T) (rho : ident -> Z -> T) inp body A0 r,
    forallb nobr body = true ->
    @run_kernel sx SZc SLitc SCLitc SAdd SSub SMul SDiv SNeg s_cmp s_cmp s_cmp s_fn inp body A0 = Some r ->
    @run_kernel T of_Z of_lit of_clit tadd tsub tmul tdiv tneg teqb tltb tleb tfn
      (imap T of_Z of_lit of_clit tadd tsub tmul tdiv tneg tfn rho inp) body
      (map (vmap T of_Z of_lit of_clit tadd tsub tmul tdiv tneg tfn rho) A0)
    = Some (map (vmap T of_Z of_lit of_clit tadd tsub tmul tdiv tneg tfn rho) r).
Proof. exact run_hom. Qed.
Print Assumptions C17_symbolic_execution_is_faithful.
