(* C17 (first half) — building AST expressions through the overloaded operators
   (gen/SmartGen.v is translated from lnodes.py on every run) and through
   float_product yields a tree with the same numeric value as the unsimplified
   operation, for all operands and stores, in any commutative ring under of_Z.
   The optimiser passes: see the theorems further down (per kernel pair: symbolic equivalence;
   for all code lists: the structural / algebraic facts about the model Opt.v of optimizer.py). *)
From Coq Require Import ZArith List String.
From FFCX Require Import LN SmartBase Smart.
From FFCXGen Require Import SmartGen.

Theorem C17_overloads_preserve_values :
  forall (T : Type) (of_Z : Z -> T) (of_lit : Z -> Z -> T) (of_clit : Z -> Z -> Z -> Z -> T)
         (tadd tsub tmul tdiv : T -> T -> T) (tneg : T -> T) (teqb tltb tleb : T -> T -> bool)
         (tfn : string -> list T -> T),
    let zero := of_Z 0%Z in let one := of_Z 1%Z in
    (forall x, tadd zero x = x) -> (forall x, tadd x zero = x) ->
    (forall x, tsub zero x = tneg x) -> (forall x, tsub x zero = x) ->
    (forall x y, tadd x (tneg y) = tsub x y) -> (forall x y, tadd (tneg x) y = tsub y x) ->
    (forall x y, tsub x (tneg y) = tadd x y) ->
    (forall x, tmul zero x = zero) -> (forall x, tmul x zero = zero) ->
    (forall x, tmul one x = x) -> (forall x, tmul x one = x) ->
    (forall x, tmul (of_Z (-1)%Z) x = tneg x) -> (forall x, tmul x (of_Z (-1)%Z) = tneg x) ->
    (forall x, tdiv zero x = zero) ->
    (forall a b, of_Z (a + b)%Z = tadd (of_Z a) (of_Z b)) ->
    (forall a b, of_Z (a - b)%Z = tsub (of_Z a) (of_Z b)) ->
    (forall a b, of_Z (a * b)%Z = tmul (of_Z a) (of_Z b)) ->
    (forall a, of_Z (- a)%Z = tneg (of_Z a)) ->
    (forall z, of_lit z 0%Z = of_Z z) ->
    (forall m e, of_lit (- m)%Z e = tneg (of_lit m e)) ->
    (forall m e d, of_clit m e 0%Z d = of_lit m e) ->
    (forall a b c d, of_clit (- a)%Z b (- c)%Z d = tneg (of_clit a b c d)) ->
    let ev := eval T of_Z of_lit of_clit tadd tsub tmul tdiv tneg teqb tltb tleb tfn in
    let evT := evalT T of_Z of_lit of_clit tadd tsub tmul tdiv tneg teqb tltb tleb tfn in
    forall a b r inp st v x,
      to_T T of_Z v = Some x ->
      (neg_s a = Some r -> ev inp st (ENeg a) = Some v -> evT inp st r = Some x) /\
      (add_s a b = Some r -> ev inp st (EBin OAdd a b) = Some v -> evT inp st r = Some x) /\
      (radd_s a b = Some r -> ev inp st (EBin OAdd b a) = Some v -> evT inp st r = Some x) /\
      (sub_s a b = Some r -> ev inp st (EBin OSub a b) = Some v -> evT inp st r = Some x) /\
      (rsub_s a b = Some r -> ev inp st (EBin OSub b a) = Some v -> evT inp st r = Some x) /\
      (mul_s a b = Some r -> ev inp st (EBin OMul a b) = Some v -> evT inp st r = Some x) /\
      (rmul_s a b = Some r -> ev inp st (EBin OMul b a) = Some v -> evT inp st r = Some x) /\
      (div_s a b = Some r -> ev inp st (EBin ODiv a b) = Some v -> evT inp st r = Some x) /\
      (rdiv_s a b = Some r -> ev inp st (EBin ODiv b a) = Some v -> evT inp st r = Some x).
Proof.
  intros T of_Z of_lit of_clit tadd tsub tmul tdiv tneg teqb tltb tleb tfn zero one
         H1 H2 H3 H4 H5 H6 H7 H8 H9 H10 H11 H12 H13 H14 H15 H16 H17 H18 H19 H20 H21 H22
         ev evT a b r inp st v x Hx.
  repeat split; intros Hr E.
  - eapply neg_s_sound; eauto.
  - eapply add_s_sound; eauto.
  - eapply radd_s_sound; eauto.
  - eapply sub_s_sound; eauto.
  - eapply rsub_s_sound; eauto.
  - eapply mul_s_sound; eauto.
  - eapply rmul_s_sound; eauto.
  - eapply div_s_sound; eauto.
  - eapply rdiv_s_sound; eauto.
Qed.
Print Assumptions C17_overloads_preserve_values.

(* Optimiser half, per kernel pair: the kernel generated with the passes and the one generated
   without are executed symbolically; if SymEq.kernels_equiv computes true (done by vm_compute
   for every exported pair and every admissible entity/permutation value) then, for ALL values of
   the real inputs and all interpretations of literals, division and math functions over the
   integers with ring operations, both kernels run and return the same tensor.  A polynomial
   identity that holds for all integer values holds in every commutative ring. *)
From Coq Require Import ZArith List String.
From FFCX Require Import LN Sym SymEq.

Theorem C17_symbolically_equal_kernels_compute_the_same_tensor :
  forall (of_lit : Z -> Z -> Z) (of_clit : Z -> Z -> Z -> Z -> Z) (tdiv : Z -> Z -> Z)
         (teqb tltb tleb : Z -> Z -> bool) (tfn : string -> list Z -> Z) (rho : ident -> Z -> Z)
         (inp : @inputs sx) (k1 k2 : list stmt) (A0 : list (@val sx)),
    kernels_equiv inp k1 k2 A0 = true ->
    exists r,
      @run_kernel Z (fun z => z) of_lit of_clit Z.add Z.sub Z.mul tdiv Z.opp teqb tltb tleb tfn
        (imap Z (fun z => z) of_lit of_clit Z.add Z.sub Z.mul tdiv Z.opp tfn rho inp) k1
        (map (vmap Z (fun z => z) of_lit of_clit Z.add Z.sub Z.mul tdiv Z.opp tfn rho) A0) = Some r /\
      @run_kernel Z (fun z => z) of_lit of_clit Z.add Z.sub Z.mul tdiv Z.opp teqb tltb tleb tfn
        (imap Z (fun z => z) of_lit of_clit Z.add Z.sub Z.mul tdiv Z.opp tfn rho inp) k2
        (map (vmap Z (fun z => z) of_lit of_clit Z.add Z.sub Z.mul tdiv Z.opp tfn rho) A0) = Some r.
Proof. exact kernels_equiv_sound. Qed.
Print Assumptions C17_symbolically_equal_kernels_compute_the_same_tensor.

(* the symbolic run is faithful in every numeric domain (homomorphism) *)
Theorem C17_symbolic_execution_is_faithful :
  forall (T : Type) (of_Z : Z -> T) (of_lit : Z -> Z -> T) (of_clit : Z -> Z -> Z -> Z -> T)
         (tadd tsub tmul tdiv : T -> T -> T) (tneg : T -> T) (teqb tltb tleb : T -> T -> bool)
         (tfn : string -> list T -> T) (rho : ident -> Z -> T) inp body A0 r,
    forallb nobr body = true ->
    @run_kernel sx SZc SLitc SCLitc SAdd SSub SMul SDiv SNeg s_cmp s_cmp s_cmp s_fn inp body A0 = Some r ->
    @run_kernel T of_Z of_lit of_clit tadd tsub tmul tdiv tneg teqb tltb tleb tfn
      (imap T of_Z of_lit of_clit tadd tsub tmul tdiv tneg tfn rho inp) body
      (map (vmap T of_Z of_lit of_clit tadd tsub tmul tdiv tneg tfn rho) A0)
    = Some (map (vmap T of_Z of_lit of_clit tadd tsub tmul tdiv tneg tfn rho) r).
Proof. exact run_hom. Qed.
Print Assumptions C17_symbolic_execution_is_faithful.

(* Optimiser half, for ALL code lists: the model Opt.v of optimizer.py (tied to the source by the
   node-by-node correspondence of harness/optcorr.py on every captured optimize() call).
   These are the structural and algebraic facts; that moved statements do not interfere is the part
   decided per kernel pair above. *)
From FFCX Require Import Opt OptProps.
From Coq Require Import Permutation.

Theorem C17_section_fusion_moves_only_the_named_sections :
  forall code n,
    filter (fun it => negb (is_named n it)) (fuse_sections code n)
    = filter (fun it => negb (is_named n it)) code
    /\ named_sections n (fuse_sections code n)
       = match named_sections n code with nil => nil | _ => cons (fused_section n code) nil end
    /\ sstmts (fused_section n code) = map norm1 (flat_map sstmts (named_sections n code))
    /\ sdecls (fused_section n code) = flat_map sdecls (named_sections n code).
Proof.
  intros code n. split; [apply fuse_sections_keeps_the_other_items|].
  split; [apply fuse_sections_leaves_one|]. split; apply fused_section_contents.
Qed.
Print Assumptions C17_section_fusion_moves_only_the_named_sections.

Theorem C17_fused_section_stands_where_the_first_one_stood :
  forall code n pre it rest,
    code = pre ++ it :: rest -> named_sections n pre = nil -> is_named n it = true ->
    fuse_sections code n
    = pre ++ ISec (fused_section n code) :: filter (fun x => negb (is_named n x)) rest.
Proof. exact fuse_sections_shape. Qed.
Print Assumptions C17_fused_section_stands_where_the_first_one_stood.

Theorem C17_statement_cleanup_is_the_identity :
  forall (T : Type) (of_Z : Z -> T) (of_lit : Z -> Z -> T) (of_clit : Z -> Z -> Z -> Z -> T)
         (tadd tsub tmul tdiv : T -> T -> T) (tneg : T -> T) (teqb tltb tleb : T -> T -> bool)
         (tfn : string -> list T -> T) inp l st,
    @exec_list T of_Z of_lit of_clit tadd tsub tmul tdiv tneg teqb tltb tleb tfn inp (map norm1 l) st
    = @exec_list T of_Z of_lit of_clit tadd tsub tmul tdiv tneg teqb tltb tleb tfn inp l st.
Proof. exact exec_list_norm1. Qed.
Print Assumptions C17_statement_cleanup_is_the_identity.

Theorem C17_loop_fusion_collects_each_range_exactly :
  forall k l, bucket k (loop_buckets l) = bodies_with k l /\ NoDup (map fst (loop_buckets l)).
Proof. intros k l. split; [apply fuse_loops_collects_each_range | apply fuse_loops_ranges_distinct]. Qed.
Print Assumptions C17_loop_fusion_collects_each_range_exactly.

Theorem C17_hoisting_regroups_the_factors_of_a_product :
  forall (M : Type) (mul : M -> M -> M) (one : M),
    (forall a b, mul a b = mul b a) -> (forall a b c, mul (mul a b) c = mul a (mul b c)) ->
    (forall a, mul one a = a) ->
    forall (den : expr -> M) i args keep hoist tmp,
      split_args i args = Some (keep, hoist) ->
      tmp = prod M mul one (map den hoist) ->
      Permutation args (keep ++ hoist)
      /\ prod M mul one (map den keep ++ cons tmp nil) = prod M mul one (map den args).
Proof.
  intros M mul one Hc Ha H1 den i args keep hoist tmp Hs Ht. split.
  - eapply split_args_perm; eauto.
  - eapply licm_product_value; eauto.
Qed.
Print Assumptions C17_hoisting_regroups_the_factors_of_a_product.

(* non-vacuity: a product with two hoistable factors and one kept *)
Import ListNotations.
Example C17_split_example :
  split_args 5%positive [ESym 9%positive; EAcc 8%positive [ESym 5%positive]; EAcc 8%positive [ESym 6%positive]]
  = Some ([EAcc 8%positive [ESym 5%positive]], [ESym 9%positive; EAcc 8%positive [ESym 6%positive]]).
Proof. reflexivity. Qed.

(* Optimiser half, semantic part, for ALL code lists and ALL inputs (Footprint.v, OptSound.v).
   [lref inp l1 l2]: from extensionally equal stores, whenever l1 runs (LN.exec) l2 runs too and the final
   stores are extensionally equal.  [indep] and [opt_ok] are decidable and evaluated by vm_compute on every
   captured optimize() call. *)
From FFCX Require Import Footprint OptSound.

Theorem C17_statements_that_do_not_interfere_commute :
  forall (T : Type) (of_Z : Z -> T) (of_lit : Z -> Z -> T) (of_clit : Z -> Z -> Z -> Z -> T)
         (tadd tsub tmul tdiv : T -> T -> T) (tneg : T -> T) (teqb tltb tleb : T -> T -> bool)
         (tfn : string -> list T -> T) inp s1 s2,
    indep s1 s2 = true ->
    forall st st1 st12,
      @exec T of_Z of_lit of_clit tadd tsub tmul tdiv tneg teqb tltb tleb tfn inp s1 st = Some st1 ->
      @exec T of_Z of_lit of_clit tadd tsub tmul tdiv tneg teqb tltb tleb tfn inp s2 st1 = Some st12 ->
      exists st2 st21,
        @exec T of_Z of_lit of_clit tadd tsub tmul tdiv tneg teqb tltb tleb tfn inp s2 st = Some st2 /\
        @exec T of_Z of_lit of_clit tadd tsub tmul tdiv tneg teqb tltb tleb tfn inp s1 st2 = Some st21 /\
        sequiv T st12 st21.
Proof. exact commute. Qed.
Print Assumptions C17_statements_that_do_not_interfere_commute.

Theorem C17_loops_over_one_range_fuse :
  forall (T : Type) (of_Z : Z -> T) (of_lit : Z -> Z -> T) (of_clit : Z -> Z -> Z -> Z -> T)
         (tadd tsub tmul tdiv : T -> T -> T) (tneg : T -> T) (teqb tltb tleb : T -> T -> bool)
         (tfn : string -> list T -> T) inp i b e Bs,
    Bs <> nil -> Forall (fun X => declared_list X = nil) Bs -> loops_indep i Bs = true ->
    lref T of_Z of_lit of_clit tadd tsub tmul tdiv tneg teqb tltb tleb tfn inp
         (map (fun X => SFor i b e X) Bs) (cons (SFor i b e (map wrap_body Bs)) nil).
Proof. intros. eapply lref_fuse_loops; eauto. Qed.
Print Assumptions C17_loops_over_one_range_fuse.

Theorem C17_section_and_loop_fusion_preserve_the_kernel_body :
  forall (T : Type) (of_Z : Z -> T) (of_lit : Z -> Z -> T) (of_clit : Z -> Z -> Z -> Z -> T)
         (tadd tsub tmul tdiv : T -> T -> T) (tneg : T -> T) (teqb tltb tleb : T -> T -> bool)
         (tfn : string -> list T -> T) inp temps code,
    optimize temps code = opt_map (licm_item temps) (opt_nolicm code)
    /\ (opt_ok code = true ->
        lref T of_Z of_lit of_clit tadd tsub tmul tdiv tneg teqb tltb tleb tfn inp
             (desugar code) (desugar (opt_nolicm code))).
Proof.
  intros. split; [apply (optimize_decomposes T of_Z of_lit of_clit tadd tsub tmul tdiv tneg teqb tltb tleb tfn)
                 | apply opt_nolicm_sound].
Qed.
Print Assumptions C17_section_and_loop_fusion_preserve_the_kernel_body.

(* non-vacuity: two coefficient sections sharing the loop index satisfy the side condition, and the fused
   code is what optimizer.py produces for them (shape pinned by the correspondence, not by this example) *)
Example C17_opt_ok_example :
  let sec (x : positive) := ISec (mkSec "Coefficient"
      [SFor 20%positive 0 3 [SAssignAdd (LVar x) (EBin OMul (EAcc 2%positive [ESym 20%positive]) (EAcc 30%positive [ESym 20%positive]))]]
      [SVarDecl x DScalar (ELitI 0)] [AFuse]) in
  opt_ok [sec 40%positive; IStmt (SVarDecl 50%positive DScalar (ELitI 1)); sec 41%positive] = true
  /\ List.length (opt_nolicm [sec 40%positive; IStmt (SVarDecl 50%positive DScalar (ELitI 1)); sec 41%positive]) = 2%nat.
Proof. vm_compute. split; reflexivity. Qed.

(* licm, for ALL assignment lists of the inner loop body (LicmProps.v over the model Opt.number / Opt.lookup,
   which optcorr ties to optimizer.licm node by node): the pre-loop code declares every temporary once, and
   two hoisting products with different (target, occurrence) keys never read the same temporary. *)
From FFCX Require Import LicmProps.

Theorem C17_licm_declares_each_temporary_once :
  forall temps inner outer ob oe l seen c tab pre,
    NoDup temps -> number temps inner outer ob oe l seen c = Some (tab, pre) ->
    NoDup (declared_list pre) /\ map snd tab = seq c (List.length tab).
Proof.
  intros. split; [eapply number_declares_once; eauto | eapply number_counters; eauto].
Qed.
Print Assumptions C17_licm_declares_each_temporary_once.

Theorem C17_licm_products_do_not_share_a_temporary :
  forall temps inner outer ob oe l seen c0 tab pre lv1 o1 lv2 o2 c,
    number temps inner outer ob oe l seen c0 = Some (tab, pre) ->
    lookup lv1 o1 tab = Some c -> lookup lv2 o2 tab = Some c ->
    o1 = o2 /\ exists k, lval_eqb k lv1 = true /\ lval_eqb k lv2 = true.
Proof. intros. eapply temps_not_shared; eauto. Qed.
Print Assumptions C17_licm_products_do_not_share_a_temporary.

(* non-vacuity: two products on different targets both hoist and get temporaries 0 and 1 *)
Example C17_licm_number_example :
  let p (a : positive) := (LArr a [ESym 21%positive],
        [EAcc 2%positive [ESym 21%positive]; EAcc 3%positive [ESym 20%positive]; EAcc 4%positive [ESym 20%positive]]) in
  match number [90%positive; 91%positive] 21%positive 20%positive 0 3 [p 7%positive; p 8%positive] [] O with
  | Some (tab, pre) => map snd tab = [0%nat; 1%nat] /\ declared_list pre = [90%positive; 91%positive]
  | None => False
  end.
Proof. vm_compute. split; reflexivity. Qed.

(* licm, value of every rewritten assignment, for all products and tables: if the temporary holds the product
   of the hoisted factors the rewritten product equals the original one; otherwise the statement is unchanged *)
Theorem C17_licm_rewritten_assignment_keeps_its_value :
  forall temps inner outer (M : Type) (mul : M -> M -> M) (one : M),
    (forall a b, mul a b = mul b a) -> (forall a b c, mul (mul a b) c = mul a (mul b c)) ->
    (forall a, mul one a = a) ->
    forall (den : expr -> M) tab seen lv args s,
      rewrite_assign temps inner outer tab seen (lv, args) = Some s ->
      (forall c t keep hoist, lookup lv (occurrence lv seen) tab = Some c -> temp_id temps c = Some t ->
          split_args inner args = Some (keep, hoist) ->
          den (EAcc t [ESym outer]) = prod M mul one (map den hoist)) ->
      exists args', s = SAssignAdd lv (EProd args')
                    /\ prod M mul one (map den args') = prod M mul one (map den args).
Proof. intros. eapply rewrite_assign_value; eauto. Qed.
Print Assumptions C17_licm_rewritten_assignment_keeps_its_value.
