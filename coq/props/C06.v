(* C06 — the form descriptor: integrals grouped by type in ufcx order, ids sorted inside a
   group with names and domains kept paired, offsets delimiting the groups in the flattened
   kernel list, and the kernels listed under an id are exactly those of the entries with that id. *)
From Coq Require Import ZArith List Sorting.Permutation.
From FFCX Require Import FormData.

Theorem C06_ids_sorted_in_group :
  forall per_type g, In g (map sort_ids per_type) -> sorted_ids g.
Proof. exact ids_sorted_in_group. Qed.
Print Assumptions C06_ids_sorted_in_group.

Theorem C06_entries_stay_paired :
  forall per_type, Forall2 (fun l g => Permutation l g) per_type (map sort_ids per_type).
Proof. exact group_is_permutation. Qed.
Print Assumptions C06_entries_stay_paired.

Theorem C06_offsets_delimit_groups :
  forall per_type k l,
    nth_error per_type k = Some l ->
    let '(_, offs) := integral_data per_type in
    (nth (S k) offs 0 - nth k offs 0 = nslots l /\
     nth k offs 0 = nslots (concat (firstn k (map sort_ids per_type))))%Z.
Proof. exact offsets_delimit. Qed.
Print Assumptions C06_offsets_delimit_groups.

Theorem C06_dispatch_lists_exactly_the_entries_of_the_id :
  forall per_type k l i,
    nth_error per_type k = Some l ->
    Permutation (filter (fun s => Z.eqb (fst (fst s)) i) (slots (sort_ids l)))
                (filter (fun s => Z.eqb (fst (fst s)) i) (slots l)).
Proof. exact dispatch. Qed.
Print Assumptions C06_dispatch_lists_exactly_the_entries_of_the_id.
