(* C02 — facet / vertex kernels integrate over the indicated entity; interior-facet macro layout.
   Proved: the affine embedding of a reference sub-entity (map_facet_points / map_edge_points)
   is the barycentric combination of that sub-entity's vertices with the same weights, so
   reference-facet points land on exactly that facet; the macro layout (restriction, dof) ->
   r*dim + dof is a bijection onto [0, 2 dim).  The entity actually integrated over is decided
   for every local entity index of every sampled facet kernel by the oracle. *)
From Coq Require Import ZArith QArith List.
From FFCX Require Import Flatten Affine.

Theorem C02_embedding_is_barycentric :
  forall a0 as_ xi, length as_ = length xi ->
    (a0 + lin1 a0 as_ xi == (1 - sumQ xi) * a0 + dotQ xi as_)%Q.
Proof. exact embedding_is_barycentric. Qed.
Print Assumptions C02_embedding_is_barycentric.

Theorem C02_embedding_stays_on_the_entity :
  forall a0 as_ xi, length as_ = length xi ->
    (forall x, In x xi -> (0 <= x)%Q) -> (sumQ xi <= 1)%Q ->
    exists w0, (0 <= w0)%Q /\ (w0 + sumQ xi == 1)%Q /\ (a0 + lin1 a0 as_ xi == w0 * a0 + dotQ xi as_)%Q.
Proof. exact embedding_convex. Qed.
Print Assumptions C02_embedding_stays_on_the_entity.

Theorem C02_macro_layout_bijective :
  forall dim r1 i1 r2 i2, (0 <= i1 < dim)%Z -> (0 <= i2 < dim)%Z -> (0 <= r1 < 2)%Z -> (0 <= r2 < 2)%Z ->
    (r1 * dim + i1 = r2 * dim + i2)%Z -> r1 = r2 /\ i1 = i2.
Proof. exact macro_layout_bijective. Qed.
Print Assumptions C02_macro_layout_bijective.

Theorem C02_macro_layout_range :
  forall dim r i, (0 <= i < dim)%Z -> (0 <= r < 2)%Z -> (0 <= r * dim + i < 2 * dim)%Z.
Proof. exact macro_layout_range. Qed.
Print Assumptions C02_macro_layout_range.

(* ---- element tables under facet permutations (Tab.v; TabGen.v regenerated from the source, pinned in props/C01.v) ----
   For every permutation slot: if the sub-table of slot p holds the values of slot 0 at permuted points (the same
   function on the facet, the rule's point set being invariant under the facet symmetry), the value the generated
   code reads from the reduced table is within three table tolerances of the value it replaces.  The hypothesis is
   needed: Tab.reduction_unsound_without_permutation_structure. *)
From Coq Require Import Qabs.
From FFCX Require Import Tab.

Theorem C02_reduced_table_value_within_tolerance_for_every_permutation :
  forall rtol atol, (0 <= rtol)%Q -> (0 <= atol)%Q ->
  forall T sigma M p e q d,
    perm_structure T sigma -> bounded T M -> in_range T p e q d ->
    (Qabs (val T p e q d - used (reduce rtol atol T) p e q d) <= 3 * (atol + rtol * M) + rtol)%Q.
Proof. exact reduce_sound_all_perms. Qed.
Print Assumptions C02_reduced_table_value_within_tolerance_for_every_permutation.
