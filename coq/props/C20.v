(* C20 — option precedence and header/source assembly of the command-line compiler.
   OptGen.v is regenerated from options.py / main.py on every run. *)
From Coq Require Import List String Bool.
From FFCX Require Import Cli.
From FFCXGen Require Import OptGen.
Import ListNotations.

Theorem C20_get_options_precedence :
  forall (K V : Type) (keqb : K -> K -> bool) k (defaults user pwd priority : list (K * V)),
    lookup K V keqb k (get_options K V defaults user pwd priority) =
    match lookup K V keqb k priority with
    | Some v => Some v
    | None => match lookup K V keqb k pwd with
              | Some v => Some v
              | None => match lookup K V keqb k user with
                        | Some v => Some v
                        | None => lookup K V keqb k defaults
                        end
              end
    end.
Proof. exact options_precedence. Qed.
Print Assumptions C20_get_options_precedence.

(* no FFCx option left off the command line holds a non-None argparse value *)
Lemma argdefault_none : forall k, In k opt_keys -> argdefault k = None.
Proof.
  intros k H. repeat (destruct H as [<-|H]; [vm_compute; reflexivity|]). contradiction.
Qed.

Theorem C20_option_not_on_command_line_is_decided_by_the_files :
  forall k (given defaults user pwd : list (string * string)),
    In k opt_keys -> lookup string string String.eqb k given = None ->
    lookup string string String.eqb k
      (get_options string string defaults user pwd
         (priority_of string string (parsed string string String.eqb given argdefault opt_keys))) =
    lookup string string String.eqb k (get_options string string defaults user pwd []).
Proof.
  intros k given defaults user pwd Hin Hg.
  apply cli_defers_to_files.
  - intros a b H. apply String.eqb_eq. exact H.
  - exact Hg.
  - apply argdefault_none. exact Hin.
Qed.
Print Assumptions C20_option_not_on_command_line_is_decided_by_the_files.

Theorem C20_command_line_wins :
  forall k v (given defaults user pwd : list (string * string)),
    In k opt_keys -> lookup string string String.eqb k given = Some v ->
    lookup string string String.eqb k
      (get_options string string defaults user pwd
         (priority_of string string (parsed string string String.eqb given argdefault opt_keys))) = Some v.
Proof.
  intros. apply cli_wins; auto.
  - apply String.eqb_refl.
  - intros a b E. apply String.eqb_eq. exact E.
Qed.
Print Assumptions C20_command_line_wins.

Theorem C20_header_and_source_are_block_concatenations :
  forall (S : Type) (blocks : list (list (list S * list S))),
    fst (format_code S blocks) = List.concat (map fst (List.concat blocks)) /\
    snd (format_code S blocks) = List.concat (map snd (List.concat blocks)).
Proof. exact format_code_concat. Qed.
Print Assumptions C20_header_and_source_are_block_concatenations.

(* ---- namespace / file stem: main.sanitise_filename, regenerated as OptGen.sanitise_steps ---- *)
From Coq Require Import NArith.
From FFCX Require Import Sanit.

(* whatever the file is called, the prefix of every alias and the output stem consist of
   characters a C identifier may contain *)
Theorem C20_namespace_is_made_of_identifier_characters :
  forall s : list N, Forall (fun c => ident_char c = true) (run_steps sanitise_steps s).
Proof. apply sanitise_identifier. vm_compute. reflexivity. Qed.
Print Assumptions C20_namespace_is_made_of_identifier_characters.

(* and a stem that already is one is kept as it is *)
Theorem C20_clean_stem_is_kept :
  forall s : list N, Forall (fun c => ident_char c = true) s -> run_steps sanitise_steps s = s.
Proof. apply sanitise_fixes_identifiers. vm_compute. reflexivity. Qed.
Print Assumptions C20_clean_stem_is_kept.

Example C20_sanitise_example :
  run_steps sanitise_steps [80; 111; 105; 45; 50; 32; 32; 100; 94; 91]%N = [80; 111; 105; 95; 50; 95; 100; 95]%N.
Proof. vm_compute. reflexivity. Qed.
