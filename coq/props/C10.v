(* C10 — optimisation options never change the computed tensor.
   - clamping: an element-table entry moves by at most atol + rtol (targets regenerated from
     clamp_table_small_numbers), for all entries and all admissible tolerances;
   - part='diagonal': with the block guard read off generate_block_parts, the rank-1 kernel is
     the diagonal of the full tensor for every list of dof blocks laid out as FFCx lays them out;
   - sum factorisation: a tensor-product rule applied direction by direction gives the flat sum;
     for rules that are not tensor products the option is switched off (read off the source). *)
From Coq Require Import QArith Qabs ZArith List.
From FFCX Require Import Clamp Diag SumFact.
From FFCXGen Require Import C10Gen.
Import ListNotations.

Theorem C10_clamping_moves_entries_by_at_most_the_tolerances :
  forall rtol atol x, (0 <= rtol)%Q -> (0 <= atol)%Q -> (atol + rtol < 1 # 2)%Q ->
    (Qabs (clamp rtol atol clamp_numbers x - x) <= atol + rtol)%Q.
Proof. exact clamp_moves_at_most_tolerance. Qed.
Print Assumptions C10_clamping_moves_entries_by_at_most_the_tolerances.

Theorem C10_zero_tolerances_change_nothing :
  forall x, (clamp 0 0 clamp_numbers x == x)%Q.
Proof. exact clamp_zero_tolerance. Qed.
Print Assumptions C10_zero_tolerances_change_nothing.

Theorem C10_diagonal_kernel_is_the_diagonal :
  forall bl k, Forall well_laid bl -> diag diag_skips_offdiagonal_blocks bl k = full bl k k.
Proof. exact diagonal_kernel_is_diagonal. Qed.
Print Assumptions C10_diagonal_kernel_is_the_diagonal.

Theorem C10_sum_factorisation_is_the_flat_sum :
  forall (A B : Type) (w1 f : A -> Z) (w2 g : B -> Z) (l1 : list A) (l2 : list B),
    sumZ (map (fun p => (w1 (fst p) * w2 (snd p)) * (f (fst p) * g (snd p)))%Z (list_prod l1 l2))
    = (sumZ (map (fun a => w1 a * f a) l1) * sumZ (map (fun b => w2 b * g b) l2))%Z.
Proof. exact @tensor_rule_factorises. Qed.
Print Assumptions C10_sum_factorisation_is_the_flat_sum.

Theorem C10_inapplicable_sum_factorisation_is_switched_off :
  sumfact_off_without_tensor_rule = true.
Proof. reflexivity. Qed.
Print Assumptions C10_inapplicable_sum_factorisation_is_switched_off.

(* part='diagonal', per sampled kernel pair and for ALL inputs: if SymEq.diagonal_equiv computes
   true (vm_compute per exported pair and entity/permutation value) then, started from a zero
   tensor, the rank-1 kernel returns exactly the diagonal of what the rank-2 kernel returns. *)
From Coq Require Import String.
From FFCX Require Import LN Sym SymEq.

Theorem C10_diagonal_kernel_equals_diagonal_of_full_kernel_for_all_inputs :
  forall (of_lit : Z -> Z -> Z) (of_clit : Z -> Z -> Z -> Z -> Z) (tdiv : Z -> Z -> Z)
         (teqb tltb tleb : Z -> Z -> bool) (tfn : string -> list Z -> Z) (rho : ident -> Z -> Z)
         (inp : @inputs sx) (k_full k_diag : list stmt) (n : nat),
    diagonal_equiv inp k_full k_diag n = true ->
    exists rf rd,
      @run_kernel Z (fun z => z) of_lit of_clit Z.add Z.sub Z.mul tdiv Z.opp teqb tltb tleb tfn
        (imap Z (fun z => z) of_lit of_clit Z.add Z.sub Z.mul tdiv Z.opp tfn rho inp) k_full (repeat (VF 0%Z) (n * n)) = Some rf /\
      @run_kernel Z (fun z => z) of_lit of_clit Z.add Z.sub Z.mul tdiv Z.opp teqb tltb tleb tfn
        (imap Z (fun z => z) of_lit of_clit Z.add Z.sub Z.mul tdiv Z.opp tfn rho inp) k_diag (repeat (VF 0%Z) n) = Some rd /\
      rd = diag_of n n rf /\ List.length rd = n.
Proof. exact diagonal_equiv_sound. Qed.
Print Assumptions C10_diagonal_kernel_equals_diagonal_of_full_kernel_for_all_inputs.
