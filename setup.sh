#!/bin/sh
# Build the static Coq theories from files on disk (offline).
set -e
cd "$(dirname "$0")"
mkdir -p coq/gen evidence work
export PYTHONHASHSEED=0 PIP_NO_INDEX=1
/venv/bin/python harness/gen_all.py
cd coq
rm -f Makefile Makefile.conf
coq_makefile -f _CoqProject -o Makefile >/dev/null
timeout 3000 make -j16
